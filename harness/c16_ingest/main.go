// C16 harness: ingestion canonicalises rows and routes them deterministically.
//
// Bounded exhaustive enumeration (no sampling) on the real code:
//
//	stage "row"   one metric x every order of its tags x {protobuf via ingestion/proto.Parse, protobuf via
//	              metric.NewProtoConverter, flat via ingestion/flat.Parse, influx line protocol via
//	              ingestion/influx.Parse} x request namespace x enriched tags x limits: accepted/rejected
//	              against the reference validity, stored row read back through the StorageRow and
//	              BrokerRow accessors against what was sent, identity independent of tag order,
//	              the formats agree.
//	stage "prec"  influx timestamp precisions.
//	stage "batch" every batch of <=3 rows (row kind x symbolic timestamp) x shard count x write window x
//	              interval x encoding through the real replica.ChannelManager.Write ->
//	              databaseChannel.Write (EvictOutOfTimeRange, shard iterator, family iterator) with
//	              recording shard/family channels: exact partition of the batch.
//	stage "pool"  two consecutive requests: ChannelManager.Write releases the batch into a sync.Pool and
//	              the next request's parser re-uses it, as in production.
package main

import (
	"fmt"
	"os"
	"sort"
	"strings"
	"time"

	"github.com/lindb/common/pkg/logger"
	"go.uber.org/zap/zapcore"

	"github.com/lindb/lindb/internal/venum"
	"github.com/lindb/lindb/internal/vevid"
	"github.com/lindb/lindb/series/metric"
)

// Case is the JSON-serialisable replay unit.
type Case struct {
	Stage string   `json:"stage"`
	Ctx   Ctx      `json:"ctx"`
	Encs  []string `json:"encs,omitempty"` // row stage: encodings to run and compare
	M     *Metric  `json:"m,omitempty"`    // row / prec stage
	Route *Route   `json:"route,omitempty"`
	Rows  []Metric `json:"rows,omitempty"` // batch / pool stage
	Prev  []Metric `json:"prev,omitempty"` // pool stage: the request before
	// pool stage: the database of the request before (nil = the same database). All databases of a broker share the
	// pool of batches; with another interval type the previous request resolved families of another calendar unit.
	PrevRoute *Route `json:"prev_route,omitempty"`
}

var (
	rep *vevid.Report
	rt  *router
)

func violate(c *Case, clause, scenario, site, detail string) {
	rep.Violate(vevid.Violation{Clause: clause, Scenario: scenario, Site: site, Detail: detail, Replay: c})
}

func siteOf(enc string) string {
	switch enc {
	case "proto":
		return "ingestion/proto.Parse"
	case "protoDirect":
		return "metric.BrokerRowProtoConverter"
	case "flat":
		return "ingestion/flat.Parse"
	default:
		return "ingestion/influx.Parse"
	}
}

// ---------------------------------------------------------------------------------------------------
// stage row

type rowResult struct {
	accepted bool
	violated bool // this evaluation already reported a violation of its own
	st       Stored
}

// evalRow sends one metric alone and checks acceptance and stored content.
func evalRow(c *Case, ctx *Ctx, m *Metric, scen string) (res rowResult) {
	rep.Evaluations++
	before := rep.ViolationCount
	defer func() { res.violated = rep.ViolationCount > before }()
	now0, real0 := clockNow(), time.Now().UnixMilli()
	ts := m.TS.resolve(now0, Route{Interval: "10s"})
	batch := parseBatch(ctx, []Metric{*m}, []int64{ts})
	rows, diff := readBatch(batch)
	now1, real1 := clockNow(), time.Now().UnixMilli()
	// a timestamp of 0 means "now": some paths use the 5ms clock (fasttime), others time.Now
	if real0 < now0 {
		now0 = real0
	}
	if real1 > now1 {
		now1 = real1
	}
	site := siteOf(ctx.Enc)
	if diff != "" {
		violate(c, "accessors-agree", scen, site, diff)
	}
	if len(rows) > 1 {
		violate(c, "one-row-per-metric", scen, site, fmt.Sprintf("one metric produced %d rows", len(rows)))
		return
	}
	res.accepted = len(rows) == 1
	v, why := validity(m, ctx)
	switch {
	case v == vInvalid && res.accepted:
		violate(c, "invalid-rejected", scen+"/"+why, site, fmt.Sprintf("invalid metric (%s) was accepted and stored as %s", why, rows[0].contentKey()))
	case v == vValid && !res.accepted:
		violate(c, "valid-accepted", scen, site, "a valid metric was rejected")
	}
	rep.Outcome(fmt.Sprintf("row/%s/%s/accepted=%v", ctx.Enc, []string{"valid", "invalid", "unspecified"}[v], res.accepted))
	if !res.accepted {
		return
	}
	res.st = rows[0]
	if v != vInvalid {
		if clause, detail := checkStored(m, ctx, ts, now0-2000, now1+2000, &res.st); clause != "" {
			violate(c, clause, scen, site, detail)
		}
	}
	return
}

func permuted(m *Metric, p []int) *Metric {
	cp := *m
	cp.Tags = make([]Tag, len(m.Tags))
	for i, j := range p {
		cp.Tags[i] = m.Tags[j]
	}
	return &cp
}

func runRowCase(c *Case) {
	m := c.M
	distinct := distinctKeys(append(append([]Tag{}, m.Tags...), c.Ctx.Enriched...))
	nontrivial := len(m.Tags) >= 2
	type encRes struct {
		enc string
		r   rowResult
	}
	var perEnc []encRes
	for _, enc := range c.Encs {
		ctx := c.Ctx
		ctx.Enc = enc
		if enc == "influx" {
			if ok, _ := influxExpressible(m); !ok {
				rep.Count("row_not_expressible_in_influx", 1)
				continue
			}
		}
		if enc == "protoDirect" && (ctx.ReqNS != "" || len(ctx.Enriched) > 0) {
			continue // metric.NewProtoConverter has no request: no request namespace, no enriched tags
		}
		scen := c.Stage + "/" + enc
		var first *rowResult
		firstOrder := ""
		venum.Permutations(len(m.Tags), func(p []int) bool {
			pm := permuted(m, p)
			r := evalRow(c, &ctx, pm, scen)
			if nontrivial {
				rep.DistinctNontrivial++
			}
			if r.accepted && !distinct && !r.violated {
				// a repeated key was resolved to one value: the identity must be the one of the resolved tag set
				canon := *pm
				canon.Tags = r.st.Tags
				canon.TS = TS{"abs", absTS}
				ctx2 := ctx
				ctx2.Enriched = nil
				rows, _ := readBatch(parseBatch(&ctx2, []Metric{canon}, []int64{absTS}))
				rep.Count("resolved_tag_set_resends", 1)
				if len(rows) == 1 && rows[0].TagsHash != r.st.TagsHash {
					violate(c, "identity-of-resolved-tags", scen, siteOf(enc),
						fmt.Sprintf("tags %v(+%v) were stored as %v with tagsHash %x, but the same tag set sent without the repeated key has tagsHash %x",
							pm.Tags, ctx.Enriched, r.st.Tags, r.st.TagsHash, rows[0].TagsHash))
				}
			}
			if first == nil {
				first = &r
				firstOrder = fmt.Sprint(pm.Tags)
				if len(rep.Samples) < 3 && len(pm.Tags) >= 2 {
					rep.Sample(map[string]interface{}{"stage": "row", "enc": enc, "metric": pm, "accepted": r.accepted})
				}
				return true
			}
			if r.accepted != first.accepted {
				violate(c, "accept-independent-of-tag-order", scen, siteOf(enc),
					fmt.Sprintf("tags %v accepted=%v but tags %s accepted=%v", pm.Tags, r.accepted, firstOrder, first.accepted))
				return true
			}
			if r.accepted && distinct {
				if r.st.TagsHash != first.st.TagsHash || r.st.NameHash != first.st.NameHash {
					violate(c, "identity-independent-of-tag-order", scen, siteOf(enc),
						fmt.Sprintf("tags %v -> tagsHash %x nameHash %x, tags %s -> tagsHash %x nameHash %x (stored tags %v vs %v)",
							pm.Tags, r.st.TagsHash, r.st.NameHash, firstOrder, first.st.TagsHash, first.st.NameHash, r.st.Tags, first.st.Tags))
				} else if r.st.crossKey(m.TS.Base) != first.st.crossKey(m.TS.Base) {
					violate(c, "stored-independent-of-tag-order", scen, siteOf(enc),
						fmt.Sprintf("tags %v stored as %s, tags %s stored as %s", pm.Tags, r.st.contentKey(), firstOrder, first.st.contentKey()))
				}
			}
			return true
		})
		if first != nil {
			perEnc = append(perEnc, encRes{enc, *first})
		}
	}
	// the formats agree: only for metrics with distinct keys, accepted by every format that was run,
	// and addressed to the same namespace in every format
	if !distinct || len(perEnc) < 2 || m.TS.Base == "zero" {
		return
	}
	base := perEnc[0]
	ctx0 := c.Ctx
	ctx0.Enc = base.enc
	for _, o := range perEnc[1:] {
		ctx1 := c.Ctx
		ctx1.Enc = o.enc
		if !base.r.accepted || !o.r.accepted || base.r.violated || o.r.violated || expectedNS(m, &ctx0) != expectedNS(m, &ctx1) {
			continue
		}
		scen := c.Stage + "/" + base.enc + "-vs-" + o.enc
		if base.r.st.crossKey(m.TS.Base) != o.r.st.crossKey(m.TS.Base) {
			violate(c, "formats-agree", scen, siteOf(o.enc), fmt.Sprintf("%s stored %s, %s stored %s", base.enc, base.r.st.contentKey(), o.enc, o.r.st.contentKey()))
		} else if base.r.st.TagsHash != o.r.st.TagsHash {
			violate(c, "formats-agree-identity", scen, siteOf(o.enc), fmt.Sprintf("tags %v: %s tagsHash %x, %s tagsHash %x", base.r.st.Tags, base.enc, base.r.st.TagsHash, o.enc, o.r.st.TagsHash))
		} else if c.Ctx.ReqNS != "" && base.r.st.NameHash != o.r.st.NameHash {
			violate(c, "formats-agree-identity", scen, siteOf(o.enc), fmt.Sprintf("metric %q/%q: %s nameHash %x, %s nameHash %x", base.r.st.NS, base.r.st.Name, base.enc, base.r.st.NameHash, o.enc, o.r.st.NameHash))
		}
		rep.Count("cross_format_comparisons", 1)
	}
}

// ---------------------------------------------------------------------------------------------------
// stage batch / pool

var (
	refShard = map[string]int{}    // stored tags + shard count -> shard of that series when it is alone in a batch
	refHash  = map[string]uint64{} // stored tags -> tags hash when alone
)

// mark makes the rows of a batch distinguishable: the value of the first simple field is 1001+index.
func mark(rows []Metric) []Metric {
	out := make([]Metric, len(rows))
	for i := range rows {
		out[i] = rows[i]
		out[i].Fields = append([]Field{}, rows[i].Fields...)
		out[i].Fields[0].Val = F(1001 + i)
	}
	return out
}

func markerOf(s *Stored) int {
	for _, f := range s.Fields {
		if f.Name == "f_sum" {
			return int(f.Val) - 1001
		}
	}
	return -1
}

// routeOnce parses and routes one request; ok=false when the clock ticked in between (caller retries).
func routeOnce(c *Case, rows []Metric, check bool, scen string) (batch *metric.BrokerBatchRows, ok bool) {
	ctx := &c.Ctx
	r := *c.Route
	if !check && c.PrevRoute != nil {
		r = *c.PrevRoute // the request before, sent to another database
	}
	site := "replica.databaseChannel.Write"
	rows = mark(rows)
	if ctx.Enc == "flat" {
		// a flat row carries its namespace itself (the row stage covers flat rows without one)
		for i := range rows {
			rows[i].NS = ctx.ReqNS
		}
	}
	now0, real0 := clockNow(), time.Now().UnixMilli()
	ts := make([]int64, len(rows))
	for i := range rows {
		ts[i] = rows[i].TS.resolve(now0, r)
	}
	batch = parseBatch(ctx, rows, ts)
	parsed, stale, diff := readBatchStale(batch)
	n := 0
	if batch != nil {
		n = batch.Len()
	}
	var (
		groups []group
		err    error
	)
	if n > 0 {
		groups, err = rt.write(r, batch)
	} else {
		batch = nil
	}
	real1 := time.Now().UnixMilli()
	if clockNow() != now0 {
		return batch, false
	}
	if !check {
		return batch, true
	}
	rep.Evaluations++
	if len(rows) >= 2 {
		rep.DistinctNontrivial++
	}
	if diff != "" {
		violate(c, "accessors-agree", scen, siteOf(ctx.Enc), diff)
	}
	if stale > 0 {
		violate(c, "only-out-of-window-rows-dropped", scen, "metric.BrokerBatchRows (pooled)",
			fmt.Sprintf("%d freshly parsed row(s) are already marked IsOutOfTimeRange before the write window was applied: the flag is left over from the previous request that used this pooled batch (previous request: %d rows with timestamps %v), so the row is silently dropped",
				stale, len(c.Prev), tsNames(c.Prev)))
	}
	// which rows were accepted by the parser; invalid ones must be absent, the others present
	accepted := make([]bool, len(rows))
	for i := range parsed {
		k := markerOf(&parsed[i])
		if k < 0 || k >= len(rows) || accepted[k] {
			violate(c, "batch-rows-are-the-sent-rows", scen, siteOf(ctx.Enc), fmt.Sprintf("parsed row %d (%s) is not one of the sent rows or appears twice", i, parsed[i].contentKey()))
			return batch, true
		}
		accepted[k] = true
	}
	for i := range rows {
		v, why := validity(&rows[i], ctx)
		if v == vInvalid && accepted[i] {
			violate(c, "invalid-rejected", scen+"/"+why, siteOf(ctx.Enc), fmt.Sprintf("row %d of the batch is invalid (%s) but was accepted", i, why))
		}
		if v == vValid && !accepted[i] {
			violate(c, "neighbours-unaffected", scen, siteOf(ctx.Enc), fmt.Sprintf("row %d of the batch is valid but was not accepted (batch of %d rows)", i, len(rows)))
		}
	}
	if err != nil {
		violate(c, "shard-below-count", scen, site, fmt.Sprintf("Write returned %v (a row was routed to a shard that does not exist)", err))
	}
	delivered := make([]int, len(rows))
	evictedSeen := 0
	for _, g := range groups {
		evictedSeen += g.Evicted
		if g.Shard < 0 || g.Shard >= r.Shards {
			violate(c, "shard-below-count", scen, site, fmt.Sprintf("group for shard %d with %d shards", g.Shard, r.Shards))
		}
		for _, s := range readBlock(g.Block) {
			s := s
			k := markerOf(&s)
			if k < 0 || k >= len(rows) || !accepted[k] {
				violate(c, "routed-rows-are-the-accepted-rows", scen, site, fmt.Sprintf("shard %d family %d received %s which is not an accepted row of the batch", g.Shard, g.FamilyTime, s.contentKey()))
				continue
			}
			delivered[k]++
			if clause, detail := checkStored(&rows[k], ctx, ts[k], min64(now0, real0)-2000, max64(now0, real1)+2000, &s); clause != "" {
				violate(c, clause, scen, site, fmt.Sprintf("row %d after routing: %s", k, detail))
			}
			sentTS := ts[k]
			if sentTS == 0 {
				sentTS = s.TS // "now" was substituted by the server: the stored timestamp is the row's timestamp
			}
			if want := familyStart(r.Interval, sentTS); g.FamilyTime != want {
				violate(c, "family-contains-timestamp", scen, "metric.BrokerBatchShardFamilyIterator",
					fmt.Sprintf("row %d timestamp %d (%s) was put into family %d, its family starts at %d (interval %s, batch timestamps %v)",
						k, sentTS, rows[k].TS, g.FamilyTime, want, r.Interval, ts))
			}
			key := tagsKey(s.Tags)
			if h, ok := refHash[key]; ok && h != s.TagsHash {
				violate(c, "identity-independent-of-batch", scen, siteOf(ctx.Enc), fmt.Sprintf("tags %v: tagsHash %x in this batch, %x when sent alone", s.Tags, s.TagsHash, h))
			}
			if sh, ok := refShard[fmt.Sprintf("%s#%d", key, r.Shards)]; ok && sh != g.Shard {
				violate(c, "shard-independent-of-batch-and-tag-order", scen, "metric.BrokerBatchRows.NewShardGroupIterator",
					fmt.Sprintf("series %v went to shard %d of %d in this batch (sent tags %v), to shard %d when sent alone", s.Tags, g.Shard, r.Shards, rows[k].Tags, sh))
			}
		}
	}
	nEvicted, nRouted := 0, 0
	for i := range rows {
		if !accepted[i] {
			continue
		}
		sentTS := ts[i]
		if sentTS == 0 {
			sentTS = now0
		}
		in := inWindow(sentTS, now0, r)
		switch {
		case in && delivered[i] == 0:
			violate(c, "only-out-of-window-rows-dropped", scen, "metric.BrokerBatchRows.EvictOutOfTimeRange",
				fmt.Sprintf("row %d timestamp now%+d is inside the window [now-%s, now+%s] but reached no shard/family (batch timestamps relative to now: %v)",
					i, sentTS-now0, orInf(r.Behind), orInf(r.Ahead), rel(ts, now0)))
		case !in && delivered[i] > 0:
			violate(c, "out-of-window-rows-dropped", scen, "metric.BrokerBatchRows.EvictOutOfTimeRange",
				fmt.Sprintf("row %d timestamp now%+d is outside the window [now-%s, now+%s] but was written", i, sentTS-now0, orInf(r.Behind), orInf(r.Ahead)))
		case delivered[i] > 1:
			violate(c, "exactly-one-group", scen, site, fmt.Sprintf("row %d was written %d times", i, delivered[i]))
		}
		if in {
			nRouted++
		} else {
			nEvicted++
		}
	}
	rep.Outcome(fmt.Sprintf("%s/rows=%d accepted=%d routed=%d evicted=%d groups=%d", c.Stage, len(rows), len(parsed), nRouted, nEvicted, len(groups)))
	return batch, true
}

func min64(a, b int64) int64 {
	if a < b {
		return a
	}
	return b
}

func max64(a, b int64) int64 {
	if a > b {
		return a
	}
	return b
}

func shardsOf(gs []group) string {
	var out []string
	for _, g := range gs {
		out = append(out, fmt.Sprintf("shard=%d", g.Shard))
	}
	return strings.Join(out, ",")
}

func tsNames(rows []Metric) []string {
	var out []string
	for _, r := range rows {
		out = append(out, r.TS.String())
	}
	return out
}

func orInf(s string) string {
	if s == "" {
		return "inf"
	}
	return s
}

func rel(ts []int64, now int64) []int64 {
	out := make([]int64, len(ts))
	for i, t := range ts {
		out[i] = t - now
	}
	return out
}

func batchClass(c *Case) string { return c.Stage + "/" + c.Ctx.Enc }

func runBatchCase(c *Case) {
	scen := batchClass(c)
	for attempt := 0; attempt < 50; attempt++ {
		if c.Stage == "pool" {
			prev, ok := routeOnce(c, c.Prev, false, scen)
			if !ok {
				rep.Count("clock_tick_retries", 1)
				drainPool(prev)
				continue
			}
			if prev == nil {
				rep.Count("pool_prev_empty", 1)
			}
			cur, ok := routeOnceReuse(c, prev, scen)
			drainPool(cur, prev)
			if ok {
				return
			}
			rep.Count("clock_tick_retries", 1)
			continue
		}
		batch, ok := routeOnce(c, c.Rows, true, scen)
		if batch != nil && !drainPool(batch) {
			rep.Count("pool_drain_missed", 1)
		}
		if ok {
			if len(rep.Samples) < 6 && len(c.Rows) == 3 {
				rep.Sample(map[string]interface{}{"stage": c.Stage, "enc": c.Ctx.Enc, "route": c.Route.String(), "rows": c.Rows})
			}
			return
		}
		rep.Count("clock_tick_retries", 1)
	}
	rep.Count("clock_never_stable", 1)
	rep.Cap("a case could not be evaluated between two ticks of the 5ms clock in 50 attempts")
}

// routeOnceReuse runs the second request of a pool case and records whether the parser really got the
// released batch of the first request back from the pool (otherwise the case degenerates to a batch case).
func routeOnceReuse(c *Case, prev *metric.BrokerBatchRows, scen string) (*metric.BrokerBatchRows, bool) {
	cur, ok := routeOnce(c, c.Rows, true, scen)
	if ok {
		if prev != nil && cur == prev {
			rep.Count("pool_reused", 1)
		} else {
			rep.Count("pool_not_reused", 1)
		}
	}
	return cur, ok
}

// ---------------------------------------------------------------------------------------------------
// alphabets

var (
	names      = []string{"a", "a b", "é", `a,b=c\`, `x\y,z`}
	limitNames = []string{"sevench", "toolong_8"} // 7 and 9 bytes: just over / well over the tight limit of 6 (`a,b=c\` is exactly 6)
	tagVals    = []string{"v0", "x y", "p=q,r", "ü", "v4"}
	// key symbols of the tag alphabet; "" is an invalid key, "rack" carries an empty (invalid) value
	tagKeys = []string{"host", "zone", "é", "", "rack"}
)

const absTS = int64(1700000000123)

func sf(name string, typ int, v float64) Field { return Field{Name: name, Type: typ, Val: F(v)} }

var inf = F(posInf())

func posInf() float64 { var z float64; return 1 / z }
func nan() float64    { var z float64; return z / z }

func hist(bounds, values []F, min, max, sum, count float64) *Hist {
	return &Hist{Bounds: bounds, Values: values, Min: F(min), Max: F(max), Sum: F(sum), Count: F(count)}
}

type fieldList struct {
	label  string
	fields []Field
	hist   *Hist
}

func fieldLists() []fieldList {
	okH := func() *Hist { return hist([]F{1, 2, inf}, []F{1, 0, 3}, 1, 9, 12, 4) }
	return []fieldList{
		{"sum", []Field{sf("f_sum", tSum, 1)}, nil},
		{"min", []Field{sf("f_min", tMin, -2.5)}, nil},
		{"max", []Field{sf("f_max", tMax, 0)}, nil},
		{"last", []Field{sf("f_last", tLast, 1.7976931348623157e308)}, nil},
		{"first", []Field{sf("f_first", tFirst, 5e-324)}, nil},
		{"all5", []Field{sf("a_sum", tSum, 1), sf("b", tMin, 2), sf("c", tMax, 3), sf("d_last", tLast, -4), sf("e_first", tFirst, 5)}, nil},
		{"three", []Field{sf("a_sum", tSum, 1), sf("b_last", tLast, 2), sf("c_first", tFirst, 3)}, nil},
		{"none", nil, nil},
		{"nan", []Field{sf("f_sum", tSum, nan())}, nil},
		{"+inf", []Field{sf("f_sum", tSum, posInf())}, nil},
		{"-inf", []Field{sf("f_last", tLast, -posInf())}, nil},
		{"ok+nan", []Field{sf("a_sum", tSum, 1), sf("b_last", tLast, nan())}, nil},
		{"unspecified", []Field{sf("f_sum", tUnspecified, 1)}, nil},
		{"ok+unspecified", []Field{sf("a_sum", tSum, 1), sf("b_last", tUnspecified, 1)}, nil},
		{"emptyname", []Field{sf("", tSum, 1)}, nil},
		{"dupname", []Field{sf("f_sum", tSum, 1), sf("f_sum", tSum, 2)}, nil},
		{"hist", nil, okH()},
		{"hist+sum", []Field{sf("f_sum", tSum, 1)}, okH()},
		{"hist-decreasing", nil, hist([]F{2, 1, inf}, []F{1, 0, 3}, 1, 9, 12, 4)},
		{"hist-no-inf", nil, hist([]F{1, 2, 3}, []F{1, 0, 3}, 1, 9, 12, 4)},
		{"hist-mismatch", nil, hist([]F{1, 2, inf}, []F{1, 0}, 1, 9, 12, 4)},
		{"hist-2-buckets", nil, hist([]F{1, inf}, []F{1, 0}, 1, 9, 12, 4)},
		{"hist-1-bucket", nil, hist([]F{inf}, []F{1}, 1, 9, 12, 4)},
		{"hist-empty", nil, hist(nil, nil, 0, 0, 0, 0)},
		{"hist-neg-value", []Field{sf("f_sum", tSum, 1)}, hist([]F{1, 2, inf}, []F{1, -1, 3}, 1, 9, 12, 4)},
		{"hist-neg-min", nil, hist([]F{1, 2, inf}, []F{1, 0, 3}, -1, 9, 12, 4)},
		{"hist-nan-sum", nil, hist([]F{1, 2, inf}, []F{1, 0, 3}, 1, 9, nan(), 4)},
		{"hist-equal-bounds", nil, hist([]F{0, 0, inf}, []F{0, 0, 0}, 0, 0, 0, 0)},
		// influx only: literal values and the default translation (key without a type suffix)
		{"influx-int", []Field{{Name: "f_sum", Type: tSum, Val: 7, Lit: "7i"}}, nil},
		{"influx-bool", []Field{{Name: "up", Type: tLast, Val: 1, Lit: "true"}, {Name: "down", Type: tLast, Val: 0, Lit: "F"}}, nil},
		{"influx-untyped", []Field{{Name: "g", Lit: "3.5"}, {Name: "h_first", Type: tFirst, Val: -2, Lit: "-2"}}, nil},
	}
}

func influxOnly(fl fieldList) bool {
	for _, f := range fl.fields {
		if f.Lit != "" {
			return true
		}
	}
	return false
}

// tagMultisets: every multiset of size <= maxTags over nKeys key symbols; the i-th tag of the base order
// gets the i-th value, so that duplicate keys carry different values. All orders are enumerated later.
func tagMultisets(nKeys, maxTags int) [][]Tag {
	var out [][]Tag
	var rec func(start int, cur []int)
	rec = func(start int, cur []int) {
		ts := make([]Tag, len(cur))
		for i, k := range cur {
			ts[i] = Tag{K: tagKeys[k], V: tagVals[i]}
			if tagKeys[k] == "rack" {
				ts[i].V = ""
			}
		}
		out = append(out, ts)
		if len(cur) == maxTags {
			return
		}
		for k := start; k < nKeys; k++ {
			rec(k, append(append([]int{}, cur...), k))
		}
	}
	rec(0, nil)
	return out
}

func smallTagLists() [][]Tag {
	return [][]Tag{
		nil,
		{{"host", "v0"}},
		{{"zone", "x y"}, {"host", "v0"}},
		{{"host", "v0"}, {"host", "p=q,r"}},
		{{"hosts", "v0"}},    // key of 5 bytes: over the tight limit of 4
		{{"host", "sixsix"}}, // value of 6 bytes: over the tight limit of 5
		{{"host", "v0"}, {"zone", "v1"}, {"é", "v2"}},    // 3 tags: over the tight limit of 2
		{{"host", "v0"}, {"host", "v1"}, {"zone", "v2"}}, // 3 before, 2 after de-duplication
	}
}

var allEncs = []string{"proto", "protoDirect", "flat", "influx"}

type nsPair struct{ row, req string }

// forEachRowCase enumerates the row stage.
func forEachRowCase(thorough bool, f func(c *Case) bool) {
	fls := fieldLists()
	flIdx := func(labels ...string) []fieldList {
		var out []fieldList
		for _, l := range labels {
			for _, x := range fls {
				if x.label == l {
					out = append(out, x)
				}
			}
		}
		return out
	}
	enrichedAlts := [][]Tag{nil, {{"zone", "E"}}}
	emit := func(name string, ns nsPair, tags []Tag, fl fieldList, ts TS, lim LimitsSpec, enr []Tag) bool {
		encs := allEncs
		if influxOnly(fl) {
			encs = []string{"influx"}
		}
		m := &Metric{Name: name, NS: ns.row, TS: ts, Tags: tags, Fields: fl.fields, Hist: fl.hist}
		return f(&Case{Stage: "row", Ctx: Ctx{ReqNS: ns.req, Enriched: enr, Limits: lim, Precision: "ms"}, Encs: encs, M: m})
	}
	allNames := append(append([]string{""}, names...), limitNames...)
	allNS := []nsPair{{"", ""}, {"", "rq"}, {"é", ""}, {"é", "rq"}, {"a b", ""}, {"twelve_bytes", "rq"}, {"", "twelve_bytes"}}
	allTS := []TS{{"abs", absTS}, {"zero", 0}, {"abs", -1}}
	allLim := []LimitsSpec{limDefault, limOff, limTight}
	// product 1 (tag heavy): every tag multiset of <=4 tags in every order x names x field lists
	p1NS := []nsPair{{"", "rq"}, {"é", ""}}
	p1FL := flIdx("sum", "all5", "hist+sum")
	p1Lim := []LimitsSpec{limDefault, limTight}
	if thorough {
		p1NS = []nsPair{{"", "rq"}, {"é", ""}, {"", ""}, {"é", "rq"}}
		p1FL = fls
		p1Lim = allLim
	}
	for _, name := range names {
		for _, ns := range p1NS {
			for _, tags := range tagMultisets(len(tagKeys), 4) {
				for _, fl := range p1FL {
					for _, lim := range p1Lim {
						for _, enr := range enrichedAlts {
							if !emit(name, ns, tags, fl, TS{"abs", absTS}, lim, enr) {
								return
							}
						}
					}
				}
			}
		}
	}
	// product 2 (field heavy): every field list x every name (incl. empty, over the limit) x namespaces x
	// timestamps x limits over a small set of tag lists (thorough: plus every multiset of <=2 tags)
	p2Tags := smallTagLists()
	if thorough {
		p2Tags = append(p2Tags, tagMultisets(len(tagKeys), 2)...)
	}
	for _, name := range allNames {
		for _, ns := range allNS {
			for _, tags := range p2Tags {
				for _, fl := range fls {
					for _, ts := range allTS {
						for _, lim := range allLim {
							for _, enr := range enrichedAlts {
								if !emit(name, ns, tags, fl, ts, lim, enr) {
									return
								}
							}
						}
					}
				}
			}
		}
	}
	if !thorough {
		return
	}
	// product 3 (thorough): multisets of exactly 5 tags in every order (120 orders each)
	for _, name := range []string{"a b", `x\y,z`} {
		for _, tags := range tagMultisets(len(tagKeys), 5) {
			if len(tags) != 5 {
				continue
			}
			for _, fl := range flIdx("sum", "hist+sum") {
				for _, lim := range []LimitsSpec{limDefault, limTight} {
					for _, enr := range enrichedAlts {
						if !emit(name, nsPair{"", "rq"}, tags, fl, TS{"abs", absTS}, lim, enr) {
							return
						}
					}
				}
			}
		}
	}
}

// forEachPrecCase: influx timestamp precisions (explicit parameter and the server side guess).
func forEachPrecCase(f func(c *Case) bool) {
	for _, name := range []string{"a b", `x\y,z`} {
		for _, tags := range [][]Tag{nil, {{"zone", "x y"}, {"host", "p=q,r"}}} {
			for _, prec := range []string{"", "ns", "us", "ms", "s", "m", "h", "guess-ns", "guess-us"} {
				for _, ts := range []TS{{"fam", 0}, {"fam", -msHour}, {"now", 0}, {"now", -1}, {"zero", 0}} {
					if ts.Base == "now" && (prec == "s" || prec == "m" || prec == "h") {
						continue // not a multiple of the unit
					}
					m := &Metric{Name: name, TS: ts, Tags: tags, Fields: []Field{sf("f_sum", tSum, 1), {Name: "g", Lit: "2i"}}}
					if !f(&Case{Stage: "prec", Ctx: Ctx{ReqNS: "rq", Limits: limDefault, Precision: prec}, Encs: []string{"influx"}, M: m}) {
						return
					}
				}
			}
		}
	}
}

// row kinds of the batch stage; every kind starts with the marker field f_sum
func rowKinds() []Metric {
	mk := func(tags []Tag, extra ...Field) Metric {
		return Metric{Name: "cpu", Tags: tags, Fields: append([]Field{sf("f_sum", tSum, 0)}, extra...)}
	}
	return []Metric{
		mk([]Tag{{"host", "a"}, {"zone", "z"}}),              // K0
		mk([]Tag{{"zone", "z"}, {"host", "a"}}),              // K1 = K0 in another tag order
		mk([]Tag{{"host", "b"}}),                             // K2
		mk([]Tag{{"host", "b"}, {"zone", ""}}),               // K3 invalid: empty tag value
		mk(nil),                                              // K4 no tags
		mk([]Tag{{"é", "ü"}, {"zone", "z"}, {"host", "a"}}),  // K5
		mk([]Tag{{"host", "a"}, {"host", "c"}}),              // K6 duplicate key
		mk([]Tag{{"host", "d"}}, sf("g_last", tLast, nan())), // K7 invalid: NaN in the second field
		// tag sets whose concatenation is longer than 256 bytes (two of them: the second one is hashed after the first)
		mk([]Tag{{"host", strings.Repeat("x", 150)}, {"zone", strings.Repeat("y", 150)}}), // K8
		mk([]Tag{{"host", strings.Repeat("w", 300)}}),                                     // K9
	}
}

var (
	tsQuick    = []TS{{"behind", -1}, {"behind", 0}, {"now", 0}, {"ahead", 0}, {"ahead", 1}, {"fam", -1}, {"fam", 0}}
	tsThorough = append(append([]TS{}, tsQuick...), TS{"nextfam", -1}, TS{"nextfam", 0}, TS{"zero", 0})
	windows    = [][2]string{{"", ""}, {"2h", "2h"}, {"10s", ""}, {"", "30m"}}
	intervals  = []string{"10s", "5m", "1h"}
	batchEncs  = []string{"proto", "flat", "influx"}
)

func symbols(kinds []Metric, tss []TS) []Metric {
	var out []Metric
	for _, k := range kinds {
		for _, t := range tss {
			m := k
			m.TS = t
			out = append(out, m)
		}
	}
	return out
}

func seqs(sym []Metric, maxLen int, f func(rows []Metric) bool) {
	venum.SequencesUpTo(len(sym), maxLen, func(s []int) bool {
		if len(s) == 0 {
			return true
		}
		rows := make([]Metric, len(s))
		for i, j := range s {
			rows[i] = sym[j]
		}
		return f(rows)
	})
}

func forEachBatchCase(thorough bool, f func(c *Case) bool) {
	kinds := rowKinds()
	ctx := func(enc string) Ctx { return Ctx{Enc: enc, ReqNS: "ns1", Limits: limDefault, Precision: "ms"} }
	emit := func(enc string, r Route, rows []Metric) bool {
		r2 := r
		return f(&Case{Stage: "batch", Ctx: ctx(enc), Route: &r2, Rows: rows})
	}
	// product 1: every kind, every shard count, rows at "now"
	for _, enc := range batchEncs {
		for sh := 1; sh <= 8; sh++ {
			ok := true
			seqs(symbols(kinds, []TS{{"now", 0}}), 3, func(rows []Metric) bool {
				ok = emit(enc, Route{Shards: sh, Interval: "10s"}, rows)
				return ok
			})
			if !ok {
				return
			}
		}
	}
	// product 2: timestamps x windows x intervals
	shardCounts := []int{1, 3}
	sym3 := symbols([]Metric{kinds[0], kinds[1], kinds[2], kinds[3]}, tsQuick)
	var sym2 []Metric
	if thorough {
		shardCounts = []int{1, 2, 3, 4, 5, 6, 7, 8}
		sym2 = symbols(kinds, tsThorough)
	}
	for _, enc := range batchEncs {
		for _, sh := range shardCounts {
			for _, w := range windows {
				for _, iv := range intervals {
					r := Route{Shards: sh, Behind: w[0], Ahead: w[1], Interval: iv}
					ok := true
					seqs(sym3, 3, func(rows []Metric) bool { ok = emit(enc, r, rows); return ok })
					if !ok {
						return
					}
					if sym2 != nil {
						seqs(sym2, 2, func(rows []Metric) bool { ok = emit(enc, r, rows); return ok })
						if !ok {
							return
						}
					}
				}
			}
		}
	}
}

func forEachPoolCase(thorough bool, f func(c *Case) bool) {
	kinds := rowKinds()
	prevSym := symbols([]Metric{kinds[0], kinds[2]}, []TS{{"behind", -1}, {"now", 0}, {"ahead", 1}})
	curSym := symbols([]Metric{kinds[0], kinds[2]}, []TS{{"now", 0}, {"behind", 0}})
	shardCounts := []int{1, 2}
	if thorough {
		shardCounts = []int{1, 2, 5}
	}
	for _, enc := range batchEncs {
		for _, sh := range shardCounts {
			for _, w := range windows[1:] {
				// (interval of the request before, interval of this request): same database, then databases whose
				// families are of different calendar units (10s: hour, 5m: day, 1h: month), both directions
				for _, ivs := range [][2]string{{"", "10s"}, {"5m", "10s"}, {"10s", "5m"}, {"1h", "10s"}, {"10s", "1h"}} {
					r := Route{Shards: sh, Behind: w[0], Ahead: w[1], Interval: ivs[1]}
					var pr *Route
					if ivs[0] != "" {
						pr = &Route{Shards: sh, Behind: w[0], Ahead: w[1], Interval: ivs[0]}
					}
					ok := true
					seqs(prevSym, 2, func(prev []Metric) bool {
						seqs(curSym, 3, func(rows []Metric) bool {
							r2 := r
							ok = f(&Case{Stage: "pool", Ctx: Ctx{Enc: enc, ReqNS: "ns1", Limits: limDefault, Precision: "ms"}, Route: &r2, Rows: rows, Prev: prev, PrevRoute: pr})
							return ok
						})
						return ok
					})
					if !ok {
						return
					}
				}
			}
		}
	}
}

// reference pre-pass: hash and shard of every valid row kind when it is sent alone (protobuf)
func buildReferences() {
	for _, k := range rowKinds() {
		k.TS = TS{"now", 0}
		ctx := Ctx{Enc: "proto", ReqNS: "ns1", Limits: limDefault}
		if v, _ := validity(&k, &ctx); v == vInvalid {
			continue
		}
		for sh := 1; sh <= 8; sh++ {
			route := Route{Shards: sh, Interval: "10s"}
			rc := &Case{Stage: "batch", Ctx: ctx, Route: &route, Rows: []Metric{k}}
			batch := parseBatch(&ctx, mark([]Metric{k}), []int64{clockNow()})
			if batch == nil || batch.Len() != 1 {
				violate(rc, "valid-accepted", "batch/proto", siteOf("proto"), fmt.Sprintf("row kind %v was not accepted when sent alone", k.Tags))
				continue
			}
			groups, err := rt.write(route, batch)
			drainPool(batch)
			if err != nil || len(groups) != 1 || groups[0].Shard < 0 || groups[0].Shard >= sh {
				violate(rc, "shard-below-count", "batch/proto", "metric.BrokerBatchRows.NewShardGroupIterator",
					fmt.Sprintf("one row %v sent alone with %d shards: Write error %v, groups %d %s", k.Tags, sh, err, len(groups), shardsOf(groups)))
				continue
			}
			st := readBlock(groups[0].Block)
			if len(st) != 1 {
				violate(rc, "exactly-one-group", "batch/proto", "replica.databaseChannel.Write", fmt.Sprintf("one row %v sent alone: %d rows written", k.Tags, len(st)))
				continue
			}
			key := tagsKey(st[0].Tags)
			refHash[key] = st[0].TagsHash
			refShard[fmt.Sprintf("%s#%d", key, sh)] = groups[0].Shard
		}
	}
	if rep.ViolationCount > 0 {
		return // the routing of single rows is already broken; the enumeration below reports the rest
	}
	// vacuity: the valid kinds must spread over more than one shard for some shard count
	shards := map[int]bool{}
	for k, v := range refShard {
		if strings.HasSuffix(k, "#8") {
			shards[v] = true
		}
	}
	if len(shards) < 3 {
		vevid.Fatal("reference: the row kinds occupy only %d of 8 shards", len(shards))
	}
	var ks []string
	for k, v := range refShard {
		ks = append(ks, fmt.Sprintf("%s->%d", k, v))
	}
	sort.Strings(ks)
	rep.Extra["reference_shards"] = ks
}

// ---------------------------------------------------------------------------------------------------

func runCase(c *Case) {
	defer func() {
		if r := recover(); r != nil {
			if s, ok := r.(string); ok && strings.HasPrefix(s, "harness:") {
				vevid.Fatal("%s", s)
			}
			violate(c, "panic", c.Stage, "lindb", fmt.Sprint(r))
		}
	}()
	switch c.Stage {
	case "row", "prec":
		runRowCase(c)
	case "batch", "pool":
		runBatchCase(c)
	case "overlap":
		runOverlapStage(rep, &vevid.Flags{Shards: 1})
	default:
		vevid.Fatal("unknown stage %q", c.Stage)
	}
}

func main() {
	f := vevid.ParseFlags()
	rep = vevid.New("C16")
	logger.RunningAtomicLevel.SetLevel(zapcore.FatalLevel) // the parsers log every rejected row
	devnull, _ := os.OpenFile(os.DevNull, os.O_WRONLY, 0)
	os.Stdout = devnull
	rt = newRouter()
	rep.Rule = "stage row: one metric (name x namespace(row,request) x tag multiset over {host,zone,é,<empty key>,<empty value>} of <=4 tags with distinct values x field list x timestamp x limits x enriched tag), sent in EVERY order of its tags through each encoding; " +
		"stage batch: every sequence of <=3 rows (row kind x symbolic timestamp at the exact window edges, edges+-1ms, family start, family start-1ms) x shard count x write window x interval x encoding through the real ChannelManager.Write; " +
		"stage pool: every pair of consecutive requests (<=2 rows, then <=3 rows) re-using the pooled batch. " +
		"non-trivial = a metric with >=2 tags (order matters) or a batch with >=2 rows; distinct = distinct (input bytes, configuration)"
	rep.Bounds["max_tags"] = map[string]int{"quick": 4, "thorough": 5}[f.Tier]
	rep.Bounds["max_batch_rows"] = 3
	rep.Bounds["shard_counts"] = "1..8"
	rep.Bounds["windows(behind,ahead)"] = windows
	rep.Bounds["intervals"] = intervals
	rep.Bounds["encodings"] = allEncs

	if f.Replay != "" {
		var c Case
		vevid.LoadReplay(f.Replay, &c)
		if c.Stage == "batch" || c.Stage == "pool" {
			buildReferences()
		}
		fails := 0
		for i := 0; i < 5; i++ {
			before := rep.ViolationCount
			runCase(&c)
			if rep.ViolationCount > before {
				fails++
			}
		}
		rep.Extra["replay_failures_of_5"] = fails
		rep.Write()
		return
	}

	buildReferences()
	var idx int64
	stop := false
	each := func(stage string) func(c *Case) bool {
		return func(c *Case) bool {
			idx++
			if !f.Mine(idx) {
				return true
			}
			if idx%256 == 0 && f.Expired() {
				rep.Cap(fmt.Sprintf("deadline at case %d (stage %s)", idx, stage))
				stop = true
				return false
			}
			rep.Count("cases_"+stage, 1)
			runCase(c)
			return true
		}
	}
	// C16_STAGES restricts the run to some stages (the batch stage also serves as part route of C12: rows of one
	// request spread over shards and families by series/metric/row_broker.go)
	want := func(stage string) bool {
		only := os.Getenv("C16_STAGES")
		return only == "" || strings.Contains(","+only+",", ","+stage+",")
	}
	if want("row") {
		forEachRowCase(f.Thorough(), each("row"))
	}
	if !stop && want("prec") {
		forEachPrecCase(each("prec"))
	}
	if !stop && want("batch") {
		forEachBatchCase(f.Thorough(), each("batch"))
	}
	if !stop && want("pool") {
		forEachPoolCase(f.Thorough(), each("pool"))
	}
	if !stop && want("overlap") {
		runOverlapStage(rep, f)
	}
	rep.Extra["case_index_space"] = idx
	rep.Write()
}
