// C16 harness, part 1: the input model (what a client sends), the alphabets and the reference model
// (what the property statement says must be stored / where a row must go). Nothing in this file calls lindb.
package main

import (
	"encoding/json"
	"fmt"
	"math"
	"sort"
	"strconv"
	"strings"
	"time"
)

// F is a float64 that survives JSON (NaN, +Inf, -Inf, -0).
type F float64

func (f F) MarshalJSON() ([]byte, error) {
	return json.Marshal(strconv.FormatFloat(float64(f), 'g', -1, 64))
}

func (f *F) UnmarshalJSON(b []byte) error {
	var s string
	if err := json.Unmarshal(b, &s); err != nil {
		return err
	}
	v, err := strconv.ParseFloat(s, 64)
	*f = F(v)
	return err
}

func sameF(a, b F) bool {
	if math.IsNaN(float64(a)) || math.IsNaN(float64(b)) {
		return math.IsNaN(float64(a)) && math.IsNaN(float64(b))
	}
	return math.Float64bits(float64(a)) == math.Float64bits(float64(b))
}

func sameFs(a, b []F) bool {
	if len(a) != len(b) {
		return false
	}
	for i := range a {
		if !sameF(a[i], b[i]) {
			return false
		}
	}
	return true
}

// field types: the numbering of flatMetricsV1.SimpleFieldType and protoMetricsV1.SimpleFieldType (identical).
const (
	tUnspecified = 0
	tLast        = 1
	tSum         = 2
	tMin         = 3
	tMax         = 4
	tFirst       = 5
)

var typeName = []string{"unspecified", "last", "sum", "min", "max", "first"}

type Tag struct {
	K string `json:"k"`
	V string `json:"v"`
}

type Field struct {
	Name string `json:"name"`
	Type int    `json:"type"`
	Val  F      `json:"val"`
	// Lit, when set, is the literal value text of the influx line protocol ("7i", "true", ...); such a
	// field exists only in the influx encoding and Type/Val are what the documented translation yields.
	Lit string `json:"lit,omitempty"`
}

type Hist struct {
	Bounds []F `json:"bounds"`
	Values []F `json:"values"`
	Min    F   `json:"min"`
	Max    F   `json:"max"`
	Sum    F   `json:"sum"`
	Count  F   `json:"count"`
}

// TS is a symbolic timestamp; it is resolved against the clock value the code under test will read.
//
//	abs: Off                      now: now+Off          zero: 0 (the code substitutes "now")
//	behind: now-behind+Off        ahead: now+ahead+Off  fam: start of the family containing now, +Off
//	nextfam: start of the family after the one containing now, +Off
type TS struct {
	Base string `json:"base"`
	Off  int64  `json:"off"`
}

func (t TS) String() string { return fmt.Sprintf("%s%+d", t.Base, t.Off) }

type Metric struct {
	Name   string  `json:"name"`
	NS     string  `json:"ns"`
	TS     TS      `json:"ts"`
	Tags   []Tag   `json:"tags"`
	Fields []Field `json:"fields"`
	Hist   *Hist   `json:"hist,omitempty"`
}

// LimitsSpec mirrors the write-side limits of models.Limits (0 = disabled).
type LimitsSpec struct {
	Label     string `json:"label"`
	NS        int    `json:"ns"`
	Name      int    `json:"name"`
	FieldName int    `json:"field_name"`
	TagKey    int    `json:"tag_key"`
	TagValue  int    `json:"tag_value"`
	Tags      int    `json:"tags"`
	Fields    int    `json:"fields"`
}

var (
	limDefault = LimitsSpec{Label: "default", NS: 256, Name: 256, FieldName: 128, TagKey: 128, TagValue: 1024, Tags: 32, Fields: 256}
	limOff     = LimitsSpec{Label: "off"}
	limTight   = LimitsSpec{Label: "tight", NS: 10, Name: 6, FieldName: 6, TagKey: 4, TagValue: 5, Tags: 2, Fields: 2}
)

// Ctx is everything of a request that is not the metric itself.
type Ctx struct {
	Enc       string     `json:"enc"`       // proto | protoDirect | flat | influx
	ReqNS     string     `json:"req_ns"`    // namespace of the request (?ns=), "" = none
	Enriched  []Tag      `json:"enriched"`  // enrich_tag of the request
	Limits    LimitsSpec `json:"limits"`    //
	Precision string     `json:"precision"` // influx only: "", ns, us, ms, s, m, h
}

// ---------------------------------------------------------------------------------------------------
// validity (reference): invalid => must be rejected as a whole; valid => must be accepted;
// unspecified => either, but if accepted it must be stored as sent.

const (
	vValid = iota
	vInvalid
	vUnspecified
)

func finite(f F) bool { return !math.IsNaN(float64(f)) && !math.IsInf(float64(f), 0) }

func validity(m *Metric, c *Ctx) (int, string) {
	unspec := ""
	l := c.Limits
	if m.Name == "" {
		return vInvalid, "empty metric name"
	}
	if l.Name > 0 && len(m.Name) > l.Name {
		return vInvalid, "metric name longer than limit"
	}
	if ns := expectedNS(m, c); l.NS > 0 && len(ns) > l.NS {
		unspec = "namespace longer than limit (only some paths check it)"
	}
	if len(m.Fields) == 0 && m.Hist == nil {
		return vInvalid, "no field"
	}
	all := append(append([]Tag{}, m.Tags...), c.Enriched...)
	keys := map[string]bool{}
	for _, t := range all {
		if t.K == "" || t.V == "" {
			return vInvalid, "empty tag key or value"
		}
		if l.TagKey > 0 && len(t.K) > l.TagKey {
			return vInvalid, "tag key longer than limit"
		}
		if l.TagValue > 0 && len(t.V) > l.TagValue {
			// a duplicate key's losing value may or may not count
			unspec = "tag value longer than limit"
			if countKey(all, t.K) == 1 {
				return vInvalid, "tag value longer than limit"
			}
		}
		keys[t.K] = true
	}
	if l.Tags > 0 && len(all) > l.Tags {
		if len(keys) > l.Tags {
			return vInvalid, "more tags than limit"
		}
		unspec = "more tags than limit only before de-duplication"
	}
	nFields := 0
	names := map[string]bool{}
	for _, f := range m.Fields {
		exp := []Field{f}
		if c.Enc == "influx" {
			exp = influxTranslate(f)
			if exp == nil {
				return vInvalid, "influx field value not numeric/bool"
			}
		}
		if f.Name == "" {
			return vInvalid, "empty field name"
		}
		if f.Type == tUnspecified && c.Enc != "influx" {
			return vInvalid, "unspecified field type"
		}
		for _, e := range exp {
			if !finite(e.Val) {
				return vInvalid, "NaN/Inf simple field value"
			}
			if l.FieldName > 0 && len(e.Name) > l.FieldName {
				if len(f.Name) > l.FieldName {
					return vInvalid, "field name longer than limit"
				}
				unspec = "field name longer than limit only after influx expansion"
			}
			if names[e.Name] {
				unspec = "duplicate field name"
			}
			names[e.Name] = true
		}
		nFields += len(exp)
	}
	if l.Fields > 0 && nFields > l.Fields {
		if len(m.Fields) > l.Fields {
			return vInvalid, "more fields than limit"
		}
		unspec = "more fields than limit only after influx expansion"
	}
	if h := m.Hist; h != nil {
		if len(h.Bounds) != len(h.Values) {
			return vInvalid, "histogram bounds/values length mismatch"
		}
		if len(h.Values) < 2 {
			return vInvalid, "histogram with fewer than 2 buckets"
		}
		if len(h.Values) == 2 {
			unspec = "histogram with exactly 2 buckets"
		}
		for i := range h.Bounds {
			if h.Bounds[i] < 0 || h.Values[i] < 0 {
				return vInvalid, "negative histogram bound/value"
			}
			if i > 0 && h.Bounds[i] < h.Bounds[i-1] {
				return vInvalid, "histogram bounds not increasing"
			}
			if !finite(h.Values[i]) || math.IsNaN(float64(h.Bounds[i])) {
				unspec = "NaN/Inf inside histogram"
			}
		}
		if !math.IsInf(float64(h.Bounds[len(h.Bounds)-1]), 1) {
			return vInvalid, "last histogram bound is not +Inf"
		}
		for _, v := range []F{h.Min, h.Max, h.Sum, h.Count} {
			if v < 0 {
				return vInvalid, "negative histogram min/max/sum/count"
			}
			if !finite(v) {
				unspec = "NaN/Inf histogram min/max/sum/count"
			}
		}
	}
	if unspec != "" {
		return vUnspecified, unspec
	}
	return vValid, ""
}

func countKey(ts []Tag, k string) int {
	n := 0
	for _, t := range ts {
		if t.K == k {
			n++
		}
	}
	return n
}

func distinctKeys(ts []Tag) bool {
	seen := map[string]bool{}
	for _, t := range ts {
		if seen[t.K] {
			return false
		}
		seen[t.K] = true
	}
	return true
}

const defaultNS = "default-ns"

// expectedNS: the namespace the client addressed. proto: the request's namespace replaces the metric's;
// flat: the row's namespace, the request's if the row has none; influx: the request's. None => default-ns.
func expectedNS(m *Metric, c *Ctx) string {
	ns := ""
	switch c.Enc {
	case "proto", "protoDirect":
		ns = c.ReqNS
		if ns == "" {
			ns = m.NS
		}
	case "flat":
		ns = m.NS
		if ns == "" {
			ns = c.ReqNS
		}
	default:
		ns = c.ReqNS
	}
	if ns == "" {
		ns = defaultNS
	}
	return ns
}

// influxTranslate is the documented translation of an influx field (no field types on the wire):
// integer/float -> typed by the suffix of the key (last/first/sum), otherwise two fields key_sum and
// key_last; booleans -> last 0/1. nil = not a number/bool (the field is not part of lindb's data model).
func influxTranslate(f Field) []Field {
	txt := f.Lit
	if txt == "" {
		txt = strconv.FormatFloat(float64(f.Val), 'g', -1, 64)
	}
	var v float64
	switch txt {
	case "t", "T", "true", "True", "TRUE":
		return []Field{{Name: f.Name, Type: tLast, Val: 1}}
	case "f", "F", "false", "False", "FALSE":
		return []Field{{Name: f.Name, Type: tLast, Val: 0}}
	}
	if n := len(txt); n > 1 && strings.ContainsAny(txt[n-1:], "iIuU") {
		i, err := strconv.ParseInt(txt[:n-1], 10, 64)
		if err != nil {
			return nil
		}
		v = float64(i)
	} else {
		x, err := strconv.ParseFloat(txt, 64)
		if err != nil {
			return nil
		}
		v = x
	}
	switch {
	case strings.HasSuffix(f.Name, "last"):
		return []Field{{Name: f.Name, Type: tLast, Val: F(v)}}
	case strings.HasSuffix(f.Name, "first"):
		return []Field{{Name: f.Name, Type: tFirst, Val: F(v)}}
	case strings.HasSuffix(f.Name, "sum"):
		return []Field{{Name: f.Name, Type: tSum, Val: F(v)}}
	}
	return []Field{{Name: f.Name + "_sum", Type: tSum, Val: F(v)}, {Name: f.Name + "_last", Type: tLast, Val: F(v)}}
}

// expectedFields: the fields that must be readable from the stored row.
func expectedFields(m *Metric, c *Ctx) []Field {
	var out []Field
	for _, f := range m.Fields {
		if c.Enc == "influx" {
			out = append(out, influxTranslate(f)...)
		} else {
			out = append(out, Field{Name: f.Name, Type: f.Type, Val: f.Val})
		}
	}
	return out
}

// influxExpressible: can this metric be written in line protocol so that the documented translation
// yields exactly the typed fields of the metric (needed for the cross-format clause and for deciding
// whether a metric of the common alphabet is sent through influx at all).
func influxExpressible(m *Metric) (bool, string) {
	if m.NS != "" {
		return false, "row level namespace"
	}
	if m.Hist != nil {
		return false, "histogram"
	}
	if strings.HasSuffix(m.Name, `\`) || strings.HasPrefix(m.Name, "#") {
		return false, "metric name ends with a backslash (ambiguous in line protocol)"
	}
	for _, t := range m.Tags {
		if strings.HasSuffix(t.K, `\`) || strings.HasSuffix(t.V, `\`) {
			return false, "tag ends with a backslash"
		}
	}
	for _, f := range m.Fields {
		if f.Lit != "" {
			continue
		}
		e := influxTranslate(f)
		if len(e) != 1 || e[0].Type != f.Type {
			return false, "field type not derivable from the key suffix"
		}
	}
	return true, ""
}

// ---------------------------------------------------------------------------------------------------
// Stored: what is read back through the StorageRow / BrokerRow accessors.

type Stored struct {
	Name     string  `json:"name"`
	NS       string  `json:"ns"`
	TS       int64   `json:"ts"`
	Tags     []Tag   `json:"tags"`
	Fields   []Field `json:"fields"`
	Hist     *Hist   `json:"hist,omitempty"`
	TagsHash uint64  `json:"tags_hash"`
	NameHash uint64  `json:"name_hash"`
}

func tagsKey(ts []Tag) string {
	var sb strings.Builder
	for _, t := range ts {
		sb.WriteString(strconv.Quote(t.K))
		sb.WriteByte('=')
		sb.WriteString(strconv.Quote(t.V))
		sb.WriteByte(';')
	}
	return sb.String()
}

func fieldsKey(fs []Field) string {
	s := make([]string, len(fs))
	for i, f := range fs {
		v := float64(f.Val)
		bits := math.Float64bits(v)
		if math.IsNaN(v) {
			bits = 0x7ff8000000000001
		}
		s[i] = fmt.Sprintf("%q/%d/%016x", f.Name, f.Type, bits)
	}
	sort.Strings(s) // multiset comparison: the statement does not fix an order of fields
	return strings.Join(s, ",")
}

func histKey(h *Hist) string {
	if h == nil {
		return "-"
	}
	js, _ := json.Marshal(h)
	return string(js)
}

// contentKey identifies the stored content of a row without the hashes.
func (s *Stored) contentKey() string {
	return fmt.Sprintf("%q|%q|%d|%s|%s|%s", s.Name, s.NS, s.TS, tagsKey(s.Tags), fieldsKey(s.Fields), histKey(s.Hist))
}

// crossKey is the content key used to compare two SEPARATE evaluations of one metric (another tag order,
// another encoding): for clock-relative timestamps ("now", window edges, family start) every evaluation
// resolves its own timestamp from the clock, so the timestamps legitimately differ by the time that passed
// between the two evaluations - each one is checked against the timestamp it sent by checkStored.
func (s *Stored) crossKey(tsBase string) string {
	if tsBase == "abs" {
		return s.contentKey()
	}
	return fmt.Sprintf("%q|%q|<clock-relative>|%s|%s|%s", s.Name, s.NS, tagsKey(s.Tags), fieldsKey(s.Fields), histKey(s.Hist))
}

// checkStored compares a stored row with what was sent; ts is the resolved timestamp that was sent
// (0 = "now" substituted by the code: tsLo..tsHi is then the admissible interval).
// It returns the first difference ("" = equal) and the oracle clause it belongs to.
func checkStored(m *Metric, c *Ctx, ts, tsLo, tsHi int64, s *Stored) (clause, detail string) {
	if s.Name != m.Name {
		return "stored-name", fmt.Sprintf("name sent %q stored %q", m.Name, s.Name)
	}
	if want := expectedNS(m, c); s.NS != want {
		return "stored-namespace", fmt.Sprintf("namespace addressed %q (row %q, request %q) stored %q", want, m.NS, c.ReqNS, s.NS)
	}
	if ts != 0 {
		if s.TS != ts {
			return "stored-timestamp", fmt.Sprintf("timestamp sent %d stored %d", ts, s.TS)
		}
	} else if s.TS < tsLo || s.TS > tsHi {
		return "stored-timestamp", fmt.Sprintf("timestamp 0 sent (=now), stored %d not in [%d,%d]", s.TS, tsLo, tsHi)
	}
	// tags: sorted by key, one value per key, key set = sent key set, value one of the sent values
	sent := map[string]map[string]bool{}
	for _, t := range append(append([]Tag{}, m.Tags...), c.Enriched...) {
		if sent[t.K] == nil {
			sent[t.K] = map[string]bool{}
		}
		sent[t.K][t.V] = true
	}
	for i, t := range s.Tags {
		if i > 0 && !(s.Tags[i-1].K < t.K) {
			if s.Tags[i-1].K == t.K {
				return "tags-one-value-per-key", fmt.Sprintf("key %q stored twice: %v", t.K, s.Tags)
			}
			return "tags-sorted", fmt.Sprintf("stored tags not sorted by key: %v", s.Tags)
		}
		vs, ok := sent[t.K]
		if !ok {
			return "stored-tags", fmt.Sprintf("stored tag key %q was never sent; stored %v", t.K, s.Tags)
		}
		if !vs[t.V] {
			return "stored-tags", fmt.Sprintf("stored value %q of key %q is none of the sent values; stored %v sent %v", t.V, t.K, s.Tags, m.Tags)
		}
	}
	if len(s.Tags) != len(sent) {
		return "stored-tags", fmt.Sprintf("sent %d distinct tag keys, stored %d: sent %v(+%v) stored %v", len(sent), len(s.Tags), m.Tags, c.Enriched, s.Tags)
	}
	if a, b := fieldsKey(expectedFields(m, c)), fieldsKey(s.Fields); a != b {
		return "stored-fields", fmt.Sprintf("fields sent %s stored %s", a, b)
	}
	if (m.Hist == nil) != (s.Hist == nil) {
		return "stored-histogram", fmt.Sprintf("histogram sent %v stored %v", m.Hist != nil, s.Hist != nil)
	}
	if m.Hist != nil {
		h, g := m.Hist, s.Hist
		if !sameFs(h.Bounds, g.Bounds) || !sameFs(h.Values, g.Values) || !sameF(h.Min, g.Min) || !sameF(h.Max, g.Max) ||
			!sameF(h.Sum, g.Sum) || !sameF(h.Count, g.Count) {
			return "stored-histogram", fmt.Sprintf("histogram sent %s stored %s", histKey(h), histKey(g))
		}
	}
	return "", ""
}

// ---------------------------------------------------------------------------------------------------
// time: families and the write window (reference, written with package time only; TZ=UTC)

const (
	msSecond = int64(1000)
	msMinute = 60 * msSecond
	msHour   = 60 * msMinute
	msDay    = 24 * msHour
)

// familyStart returns the start of the family that contains ts for a database whose smallest interval
// is iv: below 5 minutes a family is an hour, below 1 hour a day, otherwise a calendar month.
func familyStart(iv string, ts int64) int64 {
	t := time.UnixMilli(ts).UTC()
	switch ivKind(iv) {
	case "day":
		return time.Date(t.Year(), t.Month(), t.Day(), t.Hour(), 0, 0, 0, time.UTC).UnixMilli()
	case "month":
		return time.Date(t.Year(), t.Month(), t.Day(), 0, 0, 0, 0, time.UTC).UnixMilli()
	default:
		return time.Date(t.Year(), t.Month(), 1, 0, 0, 0, 0, time.UTC).UnixMilli()
	}
}

func nextFamilyStart(iv string, ts int64) int64 {
	t := time.UnixMilli(familyStart(iv, ts)).UTC()
	switch ivKind(iv) {
	case "day":
		return t.Add(time.Hour).UnixMilli()
	case "month":
		return time.Date(t.Year(), t.Month(), t.Day()+1, 0, 0, 0, 0, time.UTC).UnixMilli()
	default:
		return time.Date(t.Year(), t.Month()+1, 1, 0, 0, 0, 0, time.UTC).UnixMilli()
	}
}

func ivKind(iv string) string {
	switch iv {
	case "10s", "1m":
		return "day"
	case "5m", "30m":
		return "month"
	case "1h", "1d":
		return "year"
	}
	panic("unknown interval " + iv)
}

func durMS(s string) int64 {
	if s == "" {
		return 0
	}
	n, err := strconv.ParseInt(s[:len(s)-1], 10, 64)
	if err != nil {
		panic(err)
	}
	switch s[len(s)-1] {
	case 's':
		return n * msSecond
	case 'm':
		return n * msMinute
	case 'h':
		return n * msHour
	case 'd':
		return n * msDay
	}
	panic("unknown duration " + s)
}

// Route is the routing configuration of a database.
type Route struct {
	Shards   int    `json:"shards"`
	Behind   string `json:"behind"` // "" = no limit
	Ahead    string `json:"ahead"`  // "" = no limit
	Interval string `json:"interval"`
}

func (r Route) String() string {
	return fmt.Sprintf("shards=%d behind=%q ahead=%q interval=%s", r.Shards, r.Behind, r.Ahead, r.Interval)
}

func (t TS) resolve(now int64, r Route) int64 {
	switch t.Base {
	case "abs":
		return t.Off
	case "zero":
		return 0
	case "now":
		return now + t.Off
	case "behind":
		return now - durMS(r.Behind) + t.Off
	case "ahead":
		return now + durMS(r.Ahead) + t.Off
	case "fam":
		return familyStart(r.Interval, now) + t.Off
	case "nextfam":
		return nextFamilyStart(r.Interval, now) + t.Off
	}
	panic("unknown ts base " + t.Base)
}

// inWindow: the accepted write window is [now-behind, now+ahead]; a side without limit is open.
func inWindow(ts, now int64, r Route) bool {
	if b := durMS(r.Behind); b > 0 && ts < now-b {
		return false
	}
	if a := durMS(r.Ahead); a > 0 && ts > now+a {
		return false
	}
	return true
}
