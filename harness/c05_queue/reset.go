package main

// Scenario "reset-vs-put": an explicit reset of the appended sequence to the position the log already has
// (Queue.SetAppendedSeq - what a follower does when its leader tells it where to continue) racing with an append.
// Whichever comes first: what the running queue says it has appended is what a reopened queue has, and every
// sequence up to it reads back the bytes that were appended under it. Every schedule within the bound, then
// close / reopen on the live directory.

import (
	"bytes"
	"fmt"
	"os"
	"path/filepath"
	"strings"

	"github.com/lindb/lindb/internal/vevid"
	"github.com/lindb/lindb/internal/vsched"
	"github.com/lindb/lindb/pkg/queue"
	"github.com/lindb/lindb/verif_h/qpages"
)

type rsWorld struct {
	dir    string
	q      queue.Queue
	putErr error
	putSeq int64 // appended sequence right after the Put returned (-2: not yet)
}

var rsw *rsWorld

var rsPreloads = [][]int{{3, 3}, {30, 30}, {3, 3, 3, 3}} // the last one: the next index entry opens a new index page

func rsBody(pre []int) func() {
	return func() {
		execNo++
		dir := filepath.Join(scratch, fmt.Sprintf("r%d", execNo))
		_ = os.RemoveAll(dir)
		x := &rsWorld{dir: dir, putSeq: -2}
		rsw = x
		rec := qpages.NewRecorder(dir)
		rec.Before = func(op, rel string) { vsched.Point("store:"+op, nil) }
		queue.VerifSetPageFactory(rec.Wrap(realFctFn))
		vsched.Quiet(true)
		q, err := queue.NewQueue(dir, 0)
		if err != nil {
			vevid.OpFailed("new queue: %v", err)
		}
		x.q = q
		for i, sz := range pre {
			if err := q.Put(msg(i, sz)); err != nil {
				vevid.OpFailed("preload: %v", err)
			}
		}
		vsched.Quiet(false)
		s := int64(len(pre) - 1)
		vsched.Spawn("reset", func() { q.SetAppendedSeq(s) })
		vsched.Spawn("put", func() {
			x.putErr = q.Put(msg(20, 30))
			if x.putErr == nil {
				x.putSeq = q.AppendedSeq()
			}
		})
	}
}

func rsFinish(rep *vevid.Report, pre []int, x *vsched.Result) {
	w := rsw
	scen := fmt.Sprintf("reset-vs-put/preload=%v", pre)
	viol := func(clause, site, detail string) {
		rep.Violate(vevid.Violation{Clause: clause, Scenario: scen, Site: site, Detail: detail + "\nlog: " + strings.Join(x.Log, " | "),
			Replay: replay{Scenario: scenario{Name: "reset-vs-put", Preload: pre}, Choices: x.Choices()}})
	}
	defer func() {
		if r := recover(); r != nil {
			viol("panic", "pkg/queue", fmt.Sprint(r))
		}
		queue.VerifSetPageFactory(realFctFn)
		_ = os.RemoveAll(w.dir)
	}()
	if x.Deadlock {
		viol("deadlock", "pkg/queue", x.WaitGraph)
		return
	}
	if x.Horizon {
		viol("livelock", "pkg/queue", x.WaitGraph)
		return
	}
	for _, p := range x.Panics {
		viol("panic", "pkg/queue", p)
	}
	if w.putErr != nil {
		viol("put-failed", "queue.Put", w.putErr.Error())
	}
	s := int64(len(pre) - 1)
	live := w.q.AppendedSeq()
	if live != s && live != s+1 {
		viol("reset-position", "queue.SetAppendedSeq / Put", fmt.Sprintf("appended sequence %d after a reset to %d and one append", live, s))
	}
	check := func(q queue.Queue, when string) {
		// (a reset moves the acknowledged position along with the appended one: what lies at or below it is released)
		for seq := q.AcknowledgedSeq() + 1; seq <= live; seq++ {
			want := msg(20, 30)
			if seq <= s {
				want = msg(int(seq), pre[seq])
			}
			got, err := q.Get(seq)
			if err != nil || !bytes.Equal(got, want) {
				viol("appended-readable", "queue.Get", fmt.Sprintf("%s: sequence %d (appended sequence %d) reads %d bytes, err=%v; appended were %d bytes of %q", when, seq, live, len(got), err, len(want), want[:1]))
				return
			}
		}
	}
	check(w.q, "running queue")
	w.q.Close()
	q2, err := queue.NewQueue(w.dir, 0)
	if err != nil {
		viol("reopen-failed", "queue.NewQueue", err.Error())
		return
	}
	defer q2.Close()
	if app := q2.AppendedSeq(); app != live {
		viol("appended-survives-reopen", "queue.SetAppendedSeq / Put", fmt.Sprintf("the running queue had appended sequence %d (reset to %d, the append got %d), the reopened queue has %d", live, s, w.putSeq, app))
		return
	}
	check(q2, "after reopen")
	rep.Outcome(fmt.Sprintf("reset-vs-put live=%d", live-s))
}

func runResetVsPut(rep *vevid.Report, f *vevid.Flags, bound int) {
	for _, pre := range rsPreloads {
		pre := pre
		e := &vsched.Explorer{Bound: bound, Horizon: 200000, Body: rsBody(pre), Shard: f.Shard, Shards: f.Shards, Deadline: f.Deadline}
		e.Check = func(x *vsched.Result) {
			rsFinish(rep, pre, x)
			if len(x.Points) > 0 {
				rep.DistinctNontrivial++
			}
		}
		e.Discard = func(x *vsched.Result) {
			if !x.Deadlock && !x.Horizon {
				rsw.q.Close()
			}
			queue.VerifSetPageFactory(realFctFn)
			_ = os.RemoveAll(rsw.dir)
		}
		e.Explore()
		if e.Diverged != "" {
			vevid.Fatal("replay divergence in reset-vs-put: %s", e.Diverged)
		}
		if e.Capped {
			rep.Cap("deadline reached in scenario reset-vs-put")
		}
		rep.Evaluations += e.Executions
		rep.States += e.Executions
		rep.Transitions += e.Points
		rep.TracesValidated += e.Executions
		rep.Count(fmt.Sprintf("schedules[reset-vs-put %v]", pre), e.Executions)
	}
}
