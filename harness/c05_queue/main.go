// C05 harness: concurrent appenders on the real pkg/queue (page geometry scaled down by overlay so that
// data-page and index-page roll-over happen with 2-5 tiny messages), every schedule within the preemption
// bound, and - for every explored schedule - a crash image after every single store into a page; every
// distinct image is recovered by the real NewQueue, checked, appended to, reopened and checked again.
package main

import (
	"bytes"
	"fmt"
	"os"
	"path/filepath"
	"runtime"
	"sort"
	"strings"

	"github.com/lindb/lindb/internal/vevid"
	"github.com/lindb/lindb/internal/vsched"
	"github.com/lindb/lindb/pkg/queue"
	"github.com/lindb/lindb/pkg/queue/page"
	"github.com/lindb/lindb/verif_h/qpages"
)

type scenario struct {
	Name    string  `json:"name"`
	Preload []int   `json:"preload"` // sizes appended sequentially before the concurrent phase
	Threads [][]int `json:"threads"` // per thread: sizes of its appends
}

func (s scenario) String() string { return s.Name }

var scenarios = []scenario{
	{"2x1", nil, [][]int{{3}, {30}}},
	{"2x1-roll", nil, [][]int{{30}, {60}}},
	{"2+1-roll", nil, [][]int{{3, 30}, {60}}},
	{"idxroll", []int{3, 3, 3}, [][]int{{3}, {30}}},
	{"3x1", nil, [][]int{{30}, {30}, {3}}},
	{"2x2", nil, [][]int{{3, 30}, {30, 3}}},
	{"3x1-roll", []int{3}, [][]int{{60}, {30}, {3}}},
	{"exact-fit", []int{34}, [][]int{{30}, {1}}}, // 34+30 fills the page exactly, the next byte must roll
	{"one-over", []int{35}, [][]int{{30}, {64}}}, // 35+30 = page size + 1 must roll; 64 = a whole page
	{"empty", []int{3}, [][]int{{0, 3}, {30}}},   // an empty message is a message: it takes a sequence and reads back empty
	// a negative size is a reader scan: AppendedSeq(), then Get of every sequence up to it
	{"2x1+reader", nil, [][]int{{3}, {30}, {-1, -1}}},
	{"roll+reader", []int{30}, [][]int{{60}, {-1, -1}}},
	{"idxroll+reader", []int{3, 3, 3}, [][]int{{3, 3}, {-1, -1}}},
}

func msg(id, size int) []byte { return bytes.Repeat([]byte{byte('a' + id)}, size) }

type imgRec struct {
	img      qpages.Image
	hash     string
	returned []int // message ids whose Put had returned when (or while) this image was current
	inflight []int
	phase    string
}

type world struct {
	dir      string
	rec      *qpages.Recorder
	q        queue.Queue
	sizes    []int // message id -> size
	owner    []int // message id -> thread (-1 preload)
	returned map[int]bool
	inflight map[int]bool
	putErr   map[int]error
	images   []*imgRec
	phase    string
	liveViol []string
}

var (
	w          *world
	execNo     int
	scratch    string
	realFctFn  func(path string, pageSize int) (page.Factory, error)
	seenImages = map[string]bool{}
)

func (x *world) snapshot() {
	if x.q == nil {
		// the queue is still being created for the first time: the stores that initialise the meta page
		// are not part of an append (C05 quantifies over crash points between the stores of an append)
		return
	}
	im := x.rec.Image()
	r := &imgRec{img: im, hash: im.Hash(), phase: x.phase}
	for id := range x.returned {
		r.returned = append(r.returned, id)
	}
	for id := range x.inflight {
		r.inflight = append(r.inflight, id)
	}
	sort.Ints(r.returned)
	sort.Ints(r.inflight)
	x.images = append(x.images, r)
}

// a Put returned: the crash may still happen while the current image is the durable state
func (x *world) markReturned(id int) {
	delete(x.inflight, id)
	x.returned[id] = true
	if n := len(x.images); n > 0 {
		last := x.images[n-1]
		cp := &imgRec{img: last.img, hash: last.hash, phase: x.phase}
		for i := range x.returned {
			cp.returned = append(cp.returned, i)
		}
		for i := range x.inflight {
			cp.inflight = append(cp.inflight, i)
		}
		sort.Ints(cp.returned)
		sort.Ints(cp.inflight)
		x.images = append(x.images, cp)
	}
}

// scan is a concurrent reader: everything at or below the appended sequence must be a whole message, and
// an append that returned before the scan started must be visible.
func (x *world) scan() {
	nRet := len(x.returned)
	app := x.q.AppendedSeq()
	if app+1 < int64(nRet) {
		x.liveViol = append(x.liveViol, fmt.Sprintf("reader: %d appends had returned but the appended sequence is %d", nRet, app))
	}
	for s := int64(0); s <= app; s++ {
		b, err := x.q.Get(s)
		if err != nil {
			x.liveViol = append(x.liveViol, fmt.Sprintf("reader: Get(%d) with appended sequence %d: %v", s, app, err))
			continue
		}
		ok := false
		for id := range x.sizes {
			if bytes.Equal(b, msg(id, x.sizes[id])) {
				ok = true
			}
		}
		if !ok {
			x.liveViol = append(x.liveViol, fmt.Sprintf("reader: sequence %d (appended sequence %d) reads %s which is no appended message", s, app, describe(map[int64][]byte{s: append([]byte(nil), b...)})))
		}
	}
}

func (x *world) put(id int) {
	x.inflight[id] = true
	err := x.q.Put(msg(id, x.sizes[id]))
	if err != nil {
		x.putErr[id] = err
		delete(x.inflight, id)
		return
	}
	x.markReturned(id)
}

func setup(sc scenario) {
	execNo++
	dir := filepath.Join(scratch, fmt.Sprintf("e%d", execNo))
	_ = os.RemoveAll(dir)
	w = &world{dir: dir, returned: map[int]bool{}, inflight: map[int]bool{}, putErr: map[int]error{}, phase: "concurrent"}
	w.rec = qpages.NewRecorder(dir)
	w.rec.Before = func(op, rel string) {
		if os.Getenv("C05_DEBUG") != "" {
			fmt.Fprintf(os.Stderr, "before: t%d %s %s\n", vsched.Cur(), op, rel)
		}
		vsched.Point("store:"+op, nil)
		if os.Getenv("C05_DEBUG") != "" {
			fmt.Fprintf(os.Stderr, "resumed: t%d %s %s\n", vsched.Cur(), op, rel)
		}
	}
	w.rec.After = func(op, rel string) {
		w.snapshot()
		if os.Getenv("C05_DEBUG") != "" {
			fmt.Fprintf(os.Stderr, "store %d: t%d %s %s\n", len(w.images)-1, vsched.Cur(), op, rel)
		}
	}
	queue.VerifSetPageFactory(w.rec.Wrap(realFctFn))
	q, err := queue.NewQueue(dir, 0)
	if err != nil {
		vevid.OpFailed("new queue: %v", err)
	}
	w.q = q
	for _, sz := range sc.Preload {
		id := len(w.sizes)
		w.sizes = append(w.sizes, sz)
		w.owner = append(w.owner, -1)
		w.put(id)
	}
}

func body(sc scenario) func() {
	return func() {
		setup(sc)
		for ti, sizes := range sc.Threads {
			var ids []int
			for _, sz := range sizes {
				if sz < 0 {
					ids = append(ids, -1)
					continue
				}
				ids = append(ids, len(w.sizes))
				w.sizes = append(w.sizes, sz)
				w.owner = append(w.owner, ti)
			}
			vsched.Spawn(fmt.Sprintf("P%d", ti+1), func() {
				for _, id := range ids {
					if id < 0 {
						w.scan()
						continue
					}
					w.put(id)
				}
			})
		}
	}
}

type replay struct {
	Scenario scenario `json:"scenario"`
	Choices  []int    `json:"choices"`
}

// readAll returns seq -> bytes(copy) for (ack, appended]
func readAll(q queue.Queue) (map[int64][]byte, int64, error) {
	app := q.AppendedSeq()
	out := map[int64][]byte{}
	for s := q.AcknowledgedSeq() + 1; s <= app; s++ {
		b, err := q.Get(s)
		if err != nil {
			return nil, app, fmt.Errorf("Get(%d): %v", s, err)
		}
		out[s] = append([]byte(nil), b...)
	}
	return out, app, nil
}

func describe(m map[int64][]byte) string {
	var keys []int64
	for k := range m {
		keys = append(keys, k)
	}
	sort.Slice(keys, func(i, j int) bool { return keys[i] < keys[j] })
	var b strings.Builder
	for _, k := range keys {
		v := m[k]
		c := byte('?')
		if len(v) > 0 {
			c = v[0]
		}
		uniform := true
		for _, x := range v {
			if x != c {
				uniform = false
			}
		}
		if uniform {
			fmt.Fprintf(&b, "%d:%c*%d ", k, c, len(v))
		} else {
			fmt.Fprintf(&b, "%d:%q ", k, v)
		}
	}
	return b.String()
}

func finish(rep *vevid.Report, sc scenario, x *vsched.Result) {
	scen := "scenario=" + sc.Name
	viol := func(clause, site, detail string) {
		rep.Violate(vevid.Violation{Clause: clause, Scenario: scen, Site: site, Detail: detail, Replay: replay{Scenario: sc, Choices: x.Choices()}})
	}
	defer func() {
		if r := recover(); r != nil {
			// a panic of queue code on a legal call (Get/Put/NewQueue after the explored schedule or on a crash image)
			viol("panic", "pkg/queue", fmt.Sprintf("%v\n%s", r, stack()))
		}
		queue.VerifSetPageFactory(realFctFn)
		_ = os.RemoveAll(w.dir)
	}()
	if x.Deadlock {
		viol("deadlock", "queue", x.WaitGraph)
		return
	}
	if x.Horizon {
		viol("livelock", "queue", x.WaitGraph)
		return
	}
	for _, p := range x.Panics {
		viol("panic", "queue.Put", p)
	}
	if len(x.Panics) > 0 {
		return
	}
	n := len(w.sizes)
	for _, lv := range w.liveViol {
		viol("concurrent-reader", "queue.Get", lv)
	}
	for id, err := range w.putErr {
		viol("put-failed", "queue.Put", fmt.Sprintf("Put of message %d (%d bytes) failed: %v", id, w.sizes[id], err))
	}
	// ---- live oracle at quiescence
	live, app, err := readAll(w.q)
	if err != nil {
		viol("readback", "queue.Get", err.Error())
		return
	}
	if app != int64(n-len(w.putErr))-1 {
		viol("dense-sequences", "queue.AppendedSeq", fmt.Sprintf("%d successful appends but appended sequence is %d", n-len(w.putErr), app))
	}
	seqOf := map[int]int64{}
	for id := 0; id < n; id++ {
		if w.putErr[id] != nil {
			continue
		}
		found := int64(-1)
		for s, b := range live {
			if bytes.Equal(b, msg(id, w.sizes[id])) {
				if found >= 0 {
					viol("bijection", "queue.Get", fmt.Sprintf("message %d readable under two sequences %d and %d", id, found, s))
				}
				found = s
			}
		}
		if found < 0 {
			viol("readback", "queue.Get", fmt.Sprintf("message %c*%d (append returned success) is not readable under any sequence; queue holds: %s", 'a'+id, w.sizes[id], describe(live)))
			continue
		}
		seqOf[id] = found
	}
	for a := 0; a < n; a++ {
		for b := a + 1; b < n; b++ {
			sa, oka := seqOf[a]
			sb, okb := seqOf[b]
			if oka && okb && (w.owner[a] == w.owner[b] || w.owner[a] == -1) && sa > sb {
				viol("program-order", "queue.Put", fmt.Sprintf("message %d appended before message %d by the same appender but has the larger sequence (%d > %d)", a, b, sa, sb))
			}
		}
	}
	order := make([]string, 0, len(seqOf))
	for s := int64(0); s <= app; s++ {
		for id, q := range seqOf {
			if q == s {
				order = append(order, fmt.Sprint(id))
			}
		}
	}
	rep.Outcome("order=" + strings.Join(order, ","))

	// ---- close / reopen / append / reopen on the live directory (stores keep being recorded)
	w.phase = "reopen"
	w.q.Close()
	w.rec.Before = nil
	checkReopened := func(tag string, want map[int64][]byte, wantApp int64) (queue.Queue, bool) {
		q, err := queue.NewQueue(w.dir, 0)
		if err != nil {
			viol("reopen-failed", "queue.NewQueue", tag+": "+err.Error())
			return nil, false
		}
		got, gapp, err := readAll(q)
		if err != nil {
			viol("readback-after-reopen", "queue.Get", tag+": "+err.Error())
			q.Close()
			return nil, false
		}
		if gapp != wantApp {
			viol("sequence-after-reopen", "queue.AppendedSeq", fmt.Sprintf("%s: appended sequence %d, expected %d", tag, gapp, wantApp))
		}
		for s, b := range want {
			if !bytes.Equal(got[s], b) {
				viol("bytes-after-reopen", "queue.Get", fmt.Sprintf("%s: sequence %d reads %s, expected %c*%d", tag, s, describe(map[int64][]byte{s: got[s]}), b[0], len(b)))
			}
		}
		return q, true
	}
	q2, ok := checkReopened("after close/reopen", live, app)
	if !ok {
		return
	}
	w.q = q2
	for _, zs := range []int{3, 60} {
		z := bytes.Repeat([]byte{'z'}, zs)
		if err := q2.Put(z); err != nil {
			viol("put-failed", "queue.Put", "append after reopen: "+err.Error())
			break
		}
		app++
		live[app] = z
		got, _, err := readAll(q2)
		if err != nil {
			viol("readback", "queue.Get", "after append following reopen: "+err.Error())
			break
		}
		for s, b := range live {
			if !bytes.Equal(got[s], b) {
				viol("later-append-alters-earlier", "queue.Put", fmt.Sprintf("after reopen and one more append (%d bytes): sequence %d reads %s, expected %c*%d", zs, s, describe(map[int64][]byte{s: got[s]}), b[0], len(b)))
			}
		}
	}
	q2.Close()
	if q3, ok := checkReopened("after append+close/reopen", live, app); ok {
		q3.Close()
	}

	// ---- crash images: every distinct (image, returned, in-flight) of the concurrent phase and of the reopen phase
	queue.VerifSetPageFactory(realFctFn)
	for i, im := range w.images {
		if os.Getenv("C05_DEBUG") != "" {
			fmt.Fprintf(os.Stderr, "img %d phase=%s ret=%v inf=%v", i, im.phase, im.returned, im.inflight)
			var ks []string
			for k := range im.img {
				ks = append(ks, k)
			}
			sort.Strings(ks)
			for _, k := range ks {
				fmt.Fprintf(os.Stderr, " %s=%x", k, im.img[k])
			}
			fmt.Fprintln(os.Stderr)
		}
		key := fmt.Sprintf("%s|%v|%v", im.hash, im.returned, im.inflight)
		rep.Count("crash_images_total", 1)
		if seenImages[key] {
			continue
		}
		seenImages[key] = true
		rep.Count("crash_images_distinct_recovered", 1)
		if len(im.inflight) > 0 {
			rep.Count("crash_images_with_inflight_append", 1)
		}
		recoverImage(rep, sc, x, im, seqOf)
	}
}

func stack() string {
	buf := make([]byte, 3000)
	n := runtime.Stack(buf, false)
	return string(buf[:n])
}

func recoverImage(rep *vevid.Report, sc scenario, x *vsched.Result, im *imgRec, seqOf map[int]int64) {
	scen := "scenario=" + sc.Name
	viol := func(clause, site, detail string) {
		rep.Violate(vevid.Violation{Clause: clause, Scenario: scen, Site: site,
			Detail: fmt.Sprintf("crash image (phase %s, returned appends %v, in flight %v): %s", im.phase, im.returned, im.inflight, detail),
			Replay: replay{Scenario: sc, Choices: x.Choices()}})
	}
	dir := filepath.Join(scratch, "crash")
	_ = os.RemoveAll(dir)
	defer os.RemoveAll(dir)
	if err := im.img.Materialize(dir); err != nil {
		vevid.Fatal("materialize: %v", err)
	}
	q, err := queue.NewQueue(dir, 0)
	if err != nil {
		viol("crash-reopen-failed", "queue.NewQueue", err.Error())
		return
	}
	got, app, err := readAll(q)
	if err != nil {
		viol("crash-readback", "queue.Get", err.Error())
		q.Close()
		return
	}
	// messages of the reopen phase ('z') are not in seqOf: images of that phase only check the originals
	nRet := 0
	for _, id := range im.returned {
		if _, ok := seqOf[id]; ok {
			nRet++
		}
	}
	if app+1 < int64(nRet) {
		viol("crash-lost-append", "queue.AppendedSeq", fmt.Sprintf("%d appends had returned before the crash, recovered appended sequence is %d; queue: %s", nRet, app, describe(got)))
	}
	for _, id := range im.returned {
		s, ok := seqOf[id]
		if !ok {
			continue
		}
		if !bytes.Equal(got[s], msg(id, w.sizes[id])) {
			viol("crash-lost-append", "queue.Get", fmt.Sprintf("append of %c*%d had returned before the crash (sequence %d) but sequence %d reads %s", 'a'+id, w.sizes[id], s, s, describe(map[int64][]byte{s: got[s]})))
		}
	}
	// everything visible must be an entire message that was returned or in flight (or 'z' in the reopen phase)
	for s, b := range got {
		ok := false
		for id := range w.sizes {
			if bytes.Equal(b, msg(id, w.sizes[id])) {
				ok = true
			}
		}
		if len(b) > 0 && b[0] == 'z' && bytes.Equal(b, bytes.Repeat([]byte{'z'}, len(b))) && (len(b) == 3 || len(b) == 60) {
			ok = true
		}
		if !ok {
			viol("crash-torn-append", "queue.Get", fmt.Sprintf("recovered sequence %d reads %s which is no appended message", s, describe(map[int64][]byte{s: b})))
		}
	}
	// append after recovery must not alter anything below, also after another reopen
	z := []byte("ZZZ")
	if err := q.Put(z); err != nil {
		viol("crash-append-failed", "queue.Put", err.Error())
		q.Close()
		return
	}
	got2, app2, err := readAll(q)
	if err != nil || app2 != app+1 || !bytes.Equal(got2[app+1], z) {
		viol("crash-append", "queue.Put", fmt.Sprintf("append after recovery: appended %d -> %d, err %v, reads %s", app, app2, err, describe(got2)))
	}
	if os.Getenv("C05_DEBUG") != "" {
		fmt.Fprintf(os.Stderr, "recover %s ret=%v inf=%v: app=%d got=%s | app2=%d got2=%s\n", im.hash, im.returned, im.inflight, app, describe(got), app2, describe(got2))
	}
	for s, b := range got {
		if !bytes.Equal(got2[s], b) {
			viol("crash-later-append-alters-earlier", "queue.Put", fmt.Sprintf("append after recovery changed sequence %d from %s to %s", s, describe(map[int64][]byte{s: b}), describe(map[int64][]byte{s: got2[s]})))
		}
	}
	q.Close()
	q, err = queue.NewQueue(dir, 0)
	if err != nil {
		viol("crash-reopen-failed", "queue.NewQueue", "second reopen: "+err.Error())
		return
	}
	got3, app3, err := readAll(q)
	if err != nil || app3 != app2 {
		viol("crash-reopen-twice", "queue.NewQueue", fmt.Sprintf("second reopen: appended %d (was %d) err %v", app3, app2, err))
	}
	for s, b := range got2 {
		if !bytes.Equal(got3[s], b) {
			viol("crash-reopen-twice", "queue.Get", fmt.Sprintf("second reopen changed sequence %d", s))
		}
	}
	q.Close()
}

func main() {
	f := vevid.ParseFlags()
	rep := vevid.New("C05")
	scratch = f.Scratch
	realFctFn = queue.VerifSetPageFactory(nil)
	queue.VerifSetPageFactory(realFctFn)
	dp, ii, _, _ := queue.VerifConstants()
	wantPage := 64
	if v := os.Getenv("C05_PAGE"); v != "" { // a part built with another data page size (thresholds derived from the page size)
		fmt.Sscan(v, &wantPage)
	}
	if dp != wantPage || ii != 4 {
		vevid.Fatal("page geometry not scaled: dataPageSize=%d indexItemsPerPage=%d", dp, ii)
	}
	rep.Bounds["dataPageSize"] = dp
	rep.Bounds["indexItemsPerPage"] = ii

	if f.Replay != "" {
		var r replay
		vevid.LoadReplay(f.Replay, &r)
		fails := 0
		for i := 0; i < 5; i++ {
			seenImages = map[string]bool{}
			before := rep.ViolationCount
			if r.Scenario.Name == "reset-vs-put" {
				x := vsched.Run(r.Choices, 200000, rsBody(r.Scenario.Preload))
				rsFinish(rep, r.Scenario.Preload, x)
				if rep.ViolationCount > before {
					fails++
				}
				continue
			}
			x := vsched.Run(r.Choices, 200000, body(r.Scenario))
			finish(rep, r.Scenario, x)
			if rep.ViolationCount > before {
				fails++
			}
		}
		rep.Extra["replay_failures_of_5"] = fails
		rep.Evaluations = 5
		rep.Write()
		return
	}
	bound := 3
	scs := scenarios
	if f.Thorough() {
		bound = -1 // unbounded: every schedule
	}
	rep.Bounds["preemption_bound"] = bound
	rep.Rule = fmt.Sprintf("scenarios: 2-3 appender threads with 1-2 appends each, sizes from {0,1,3,30,34,35,60,64} against a 64-byte data page and 4 index items per page (roll-over of both reachable), optional sequential preload; every schedule with <=%d preemptions (-1 = unbounded) (points: every lock/atomic op of pkg/queue, pkg/queue/page and every store into a page); after each schedule: close/reopen/append/reopen on the live directory; a crash image is taken after every store of every schedule and of the reopen phase, every distinct (image bytes, returned appends, in-flight appends) is recovered by the real NewQueue, read back, appended to, reopened. distinct_nontrivial = distinct crash images recovered + schedules with >=1 context switch", bound)
	if v := os.Getenv("C05_SCEN"); v != "" { // a part that runs a subset of the scenarios
		var sel []scenario
		for _, n := range strings.Split(v, ",") {
			for _, sc := range scenarios {
				if sc.Name == n {
					sel = append(sel, sc)
				}
			}
		}
		scs = sel
	}
	runResetVsPut(rep, f, bound) // small: first
	for si, sc := range scs {
		sc := sc
		e := &vsched.Explorer{Bound: bound, Horizon: 200000, Body: body(sc), Shard: f.Shard, Shards: f.Shards, Deadline: f.Deadline}
		e.Check = func(x *vsched.Result) {
			finish(rep, sc, x)
			if len(x.Points) > 0 {
				rep.DistinctNontrivial++
			}
		}
		e.Discard = func(x *vsched.Result) {
			if !x.Deadlock && !x.Horizon {
				w.q.Close()
			}
			queue.VerifSetPageFactory(realFctFn)
			_ = os.RemoveAll(w.dir)
		}
		if si == 0 && f.Shard == 0 {
			a := vsched.Run(nil, 200000, body(sc))
			w.q.Close()
			_ = os.RemoveAll(w.dir)
			b := vsched.Run(nil, 200000, body(sc))
			w.q.Close()
			_ = os.RemoveAll(w.dir)
			if len(a.Points) != len(b.Points) || a.Steps != b.Steps {
				vevid.Fatal("nondeterministic replay: %d/%d points, %d/%d steps", len(a.Points), len(b.Points), a.Steps, b.Steps)
			}
			rep.Extra["determinism_replay"] = "ok"
		}
		e.Explore()
		if e.Diverged != "" {
			vevid.Fatal("replay divergence in %s: %s", sc.Name, e.Diverged)
		}
		if e.Capped {
			rep.Cap("deadline reached in scenario " + sc.Name)
		}
		rep.Evaluations += e.Executions
		rep.States += e.Executions
		rep.Transitions += e.Points
		rep.TracesValidated += e.Executions
		rep.Count("schedules["+sc.Name+"]", e.Executions)
		if mp, _ := rep.Extra["max_points_in_one_schedule"].(int); e.MaxPoints > mp {
			rep.Extra["max_points_in_one_schedule"] = e.MaxPoints
		}
		if f.Shard == 0 {
			rep.Sample(map[string]interface{}{"scenario": sc, "schedules_this_worker": e.Executions, "max_points": e.MaxPoints})
		}
	}
	rep.DistinctNontrivial += rep.Counters["crash_images_distinct_recovered"]
	rep.Write()
}
