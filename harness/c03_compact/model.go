package main

import (
	"fmt"
	"math"
	"sort"
	"strings"

	"github.com/lindb/lindb/series/field"
)

// ---- shape alphabet ---------------------------------------------------------------------------------------

// seriesAlphabet: series ids on both sides of the 65536 container boundaries (high keys 0, 1, 2).
var seriesAlphabet = []uint32{0, 65535, 65536, 65537, 131072}

// slotRanges: metric-level slot range of one flushed block (disjoint, overlapping, nested, single slot).
// Index 4 (362 slots) is wider than the 360-slot stack block of aggregation.DownSamplingMultiSeriesInto (families of
// the 1h interval hold up to 744 slots); it is only used by the "wide" family.
var slotRanges = [][2]uint16{{0, 2}, {1, 3}, {5, 5}, {0, 5}, {3, 364}}

type fieldDef struct {
	ID   field.ID
	Type field.Type
}

// schemas: field ids are fixed per metric; a flushed block carries a per-file SUBSET of them.
var schemas = map[uint32][]fieldDef{
	1: {{1, field.SumField}, {2, field.MinField}, {3, field.MaxField}, {4, field.LastField}, {5, field.FirstField}, {6, field.HistogramField}},
	2: {{1, field.FirstField}, {7, field.HistogramField}, {8, field.HistogramField}, {200, field.MaxField}},
	3: {{1, field.SumField}, {2, field.MinField}},
}

var metricIDs = []uint32{1, 2, 3}

// Block is one metric block of one flushed file.
type Block struct {
	Metric uint32 `json:"m"`
	Series uint8  `json:"s"` // bit i: seriesAlphabet[i]
	Fields uint8  `json:"f"` // bit i: schemas[Metric][i]
	Slots  int    `json:"t"` // index into slotRanges
}

// Step is "flush" (one file = blocks in ascending metric order) or "compact".
type Step struct {
	Op     string  `json:"op"`
	Blocks []Block `json:"blocks,omitempty"`
}

// Case is one enumerated history (JSON-serialisable: it is the replay payload).
type Case struct {
	Family      string `json:"family"`        // enumeration family (pair, multi, triple, l1, seq, roll...)
	MaxFileSize uint32 `json:"max_file_size"` // kv.FamilyOption.MaxFileSize (0 = default 256 MiB, 1 = one output file per metric)
	Threshold   int    `json:"threshold"`     // 0: FamilyOption.CompactThreshold=0 and Family.Compact(); 1: CompactThreshold=1 and the store's periodic job body (needCompact -> compact: trivial move / 1 x L0 + L1 merges)
	Steps       []Step `json:"steps"`
}

func (c *Case) Class() string {
	return fmt.Sprintf("%s mfs=%d thr=%d", c.Family, c.MaxFileSize, c.Threshold)
}

func (c *Case) String() string {
	var sb strings.Builder
	for i, s := range c.Steps {
		if i > 0 {
			sb.WriteString(" ; ")
		}
		if s.Op == "compact" {
			sb.WriteString("compact")
			continue
		}
		sb.WriteString("flush{")
		for j, b := range s.Blocks {
			if j > 0 {
				sb.WriteString(" ")
			}
			sb.WriteString(b.String())
		}
		sb.WriteString("}")
	}
	return sb.String()
}

func (b Block) String() string {
	var ss, fs []string
	for i, s := range seriesAlphabet {
		if b.Series>>uint(i)&1 == 1 {
			ss = append(ss, fmt.Sprint(s))
		}
	}
	for i, d := range schemas[b.Metric] {
		if b.Fields>>uint(i)&1 == 1 {
			fs = append(fs, fmt.Sprintf("%d:%s", d.ID, d.Type))
		}
	}
	r := slotRanges[b.Slots]
	return fmt.Sprintf("m%d[series %s | fields %s | slots %d-%d]", b.Metric, strings.Join(ss, ","), strings.Join(fs, ","), r[0], r[1])
}

// ---- deterministic cell contents --------------------------------------------------------------------------

// fieldNil: the series has no page for this field in this flush (memdb then calls FlushField(nil)).
// Only used for multi-field blocks; never for every field of a series.
func fieldNil(fileSeq, si, fi int) bool { return (fileSeq*3+si*2+fi)%7 == 6 }

// slotPresent: ~20% holes, at different slots in different files.
func slotPresent(fileSeq, si, fi int, slot uint16) bool {
	return (fileSeq+si+fi*2+int(slot)*3)%5 != 4
}

// cellValue: small integer (exact float arithmetic), distinct in different files for the same cell
// (fileSeq*14 mod 23 is injective for fileSeq < 23), so sum / min / max / first / last all differ.
func cellValue(fileSeq int, metric uint32, si, fi int, slot uint16) float64 {
	// about one cell in 19 holds -Inf (a stored value like any other; +Inf is the encoder's marker of an empty slot):
	// sum = -Inf, min = -Inf, max = the other contributions, first / last = one of the contributions
	if (fileSeq*3+int(metric)*5+si*7+fi*11+int(slot)*13)%19 == 0 {
		return math.Inf(-1)
	}
	return float64(1 + (fileSeq*14+int(metric)*11+si*5+fi*3+int(slot)*7)%23)
}

// ---- reference model --------------------------------------------------------------------------------------

type cellKey struct {
	metric uint32
	series uint32
	field  field.ID
	slot   uint16
}

func (k cellKey) String() string {
	return fmt.Sprintf("(metric %d, series %d, field %d, slot %d)", k.metric, k.series, k.field, k.slot)
}

type seriesKey struct{ metric, series uint32 }
type fieldKey struct {
	metric uint32
	id     field.ID
}

// content is what a reader can observe (or, for the model, what was contributed):
// per cell the list of values (model: one per contributing flush; observation: one per file holding the cell).
type content struct {
	cells  map[cellKey][]float64
	series map[seriesKey]bool
	fields map[fieldKey]field.Type
}

func newContent() *content {
	return &content{cells: map[cellKey][]float64{}, series: map[seriesKey]bool{}, fields: map[fieldKey]field.Type{}}
}

func sortedCellKeys(m map[cellKey][]float64) []cellKey {
	ks := make([]cellKey, 0, len(m))
	for k := range m {
		ks = append(ks, k)
	}
	sort.Slice(ks, func(i, j int) bool {
		a, b := ks[i], ks[j]
		if a.metric != b.metric {
			return a.metric < b.metric
		}
		if a.series != b.series {
			return a.series < b.series
		}
		if a.field != b.field {
			return a.field < b.field
		}
		return a.slot < b.slot
	})
	return ks
}

type mismatch struct {
	clause string
	site   string
	detail string
}

// compare evaluates the oracle of the property statement: got (decoded through the real reader from all live
// files) against want (every value contributed by a flush).
func compare(want, got *content) *mismatch {
	// no series appears or disappears
	for k := range want.series {
		if !got.series[k] {
			return &mismatch{"series-disappeared", "metricsdata.MetricReader.GetSeriesIDs", fmt.Sprintf("metric %d: series %d was flushed but is in no live file", k.metric, k.series)}
		}
	}
	for k := range got.series {
		if !want.series[k] {
			return &mismatch{"series-appeared", "metricsdata.MetricReader.GetSeriesIDs", fmt.Sprintf("metric %d: series %d was never flushed but is readable", k.metric, k.series)}
		}
	}
	// no field appears or disappears (id and type)
	for k, t := range want.fields {
		gt, ok := got.fields[k]
		if !ok {
			return &mismatch{"field-disappeared", "metricsdata.MetricReader.GetFields", fmt.Sprintf("metric %d: field %d (%s) was flushed but is in no live file", k.metric, k.id, t)}
		}
		if gt != t {
			return &mismatch{"field-type-changed", "metricsdata.MetricReader.GetFields", fmt.Sprintf("metric %d: field %d flushed as %s, read as %s", k.metric, k.id, t, gt)}
		}
	}
	for k, t := range got.fields {
		if _, ok := want.fields[k]; !ok {
			return &mismatch{"field-appeared", "metricsdata.MetricReader.GetFields", fmt.Sprintf("metric %d: field %d (%s) was never flushed but is readable", k.metric, k.id, t)}
		}
	}
	// no slot appears or disappears; values by field type
	for _, k := range sortedCellKeys(want.cells) {
		w := want.cells[k]
		g, ok := got.cells[k]
		if !ok || len(g) == 0 {
			return &mismatch{"cell-disappeared", "metricsdata.MetricReader.Load", fmt.Sprintf("%s: contributed values %v, nothing readable", k, w)}
		}
		t := want.fields[fieldKey{k.metric, k.id()}]
		switch aggOf(t) {
		case field.Sum:
			if sumOf(g) != sumOf(w) {
				return &mismatch{"value-sum", "aggregation.DownSamplingMultiSeriesInto", fmt.Sprintf("%s type %s: contributed %v (sum %v), readable %v (sum %v)", k, t, w, sumOf(w), g, sumOf(g))}
			}
		case field.Min:
			if minOf(g) != minOf(w) {
				return &mismatch{"value-min", "aggregation.DownSamplingMultiSeriesInto", fmt.Sprintf("%s type %s: contributed %v (min %v), readable %v (min %v)", k, t, w, minOf(w), g, minOf(g))}
			}
		case field.Max:
			if maxOf(g) != maxOf(w) {
				return &mismatch{"value-max", "aggregation.DownSamplingMultiSeriesInto", fmt.Sprintf("%s type %s: contributed %v (max %v), readable %v (max %v)", k, t, w, maxOf(w), g, maxOf(g))}
			}
		case field.First, field.Last:
			for _, v := range g {
				if !contains(w, v) {
					return &mismatch{"value-first-last", "aggregation.DownSamplingMultiSeriesInto", fmt.Sprintf("%s type %s: contributed %v, readable %v: %v was never contributed", k, t, w, g, v)}
				}
			}
		}
	}
	for _, k := range sortedCellKeys(got.cells) {
		if _, ok := want.cells[k]; !ok {
			return &mismatch{"cell-appeared", "metricsdata.MetricReader.Load", fmt.Sprintf("%s: never contributed, readable %v", k, got.cells[k])}
		}
	}
	return nil
}

func (k cellKey) id() field.ID { return k.field }

// aggOf is the reference's own mapping field type -> aggregation of the property statement (sum, min, max and
// histogram: exact aggregate; first / last: one of the contributed values). It deliberately does not call
// field.Type.AggType(): that function is part of the code under test.
func aggOf(t field.Type) field.AggType {
	switch t {
	case field.SumField, field.HistogramField:
		return field.Sum
	case field.MinField:
		return field.Min
	case field.MaxField:
		return field.Max
	case field.LastField:
		return field.Last
	case field.FirstField:
		return field.First
	}
	panic("reference: unknown field type")
}

func sumOf(vs []float64) (s float64) {
	for _, v := range vs {
		s += v
	}
	return
}
func minOf(vs []float64) float64 {
	m := vs[0]
	for _, v := range vs {
		if v < m {
			m = v
		}
	}
	return m
}
func maxOf(vs []float64) float64 {
	m := vs[0]
	for _, v := range vs {
		if v > m {
			m = v
		}
	}
	return m
}
func contains(vs []float64, x float64) bool {
	for _, v := range vs {
		if v == x {
			return true
		}
	}
	return false
}
