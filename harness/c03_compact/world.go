package main

import (
	"fmt"
	"math"
	"os"
	"path/filepath"
	"runtime"

	"github.com/lindb/roaring"

	"github.com/lindb/lindb/aggregation"
	"github.com/lindb/lindb/flow"
	"github.com/lindb/lindb/kv"
	"github.com/lindb/lindb/kv/table"
	"github.com/lindb/lindb/kv/version"
	"github.com/lindb/lindb/pkg/bit"
	"github.com/lindb/lindb/pkg/encoding"
	"github.com/lindb/lindb/pkg/timeutil"
	"github.com/lindb/lindb/series/field"
	"github.com/lindb/lindb/tsdb/tblstore/metricsdata" // its init registers MetricDataMerger with kv
)

// mergerType is the merger the family is created with: the real registration of the metricsdata package, or (child
// processes of the roll-over part) a wrapper that delegates to metricsdata.NewMerger and only marks a panic.
var mergerType = string(metricsdata.MetricDataMerger)

// world = one real kv.Store with one real data family using the real metric data merger.
type world struct {
	dir    string
	store  kv.Store
	family kv.Family
	thr    int
	model  *content
	flushN int
}

func newWorld(dir string, mfs uint32, thr int) (*world, error) {
	_ = os.RemoveAll(dir)
	store, err := kv.GetStoreManager().CreateStore(dir, kv.DefaultStoreOption())
	if err != nil {
		return nil, fmt.Errorf("create store: %w", err)
	}
	// the options of tsdb/segment.go (CompactThreshold 0, merger MetricDataMerger) + MaxFileSize of the case
	family, err := store.CreateFamily("f", kv.FamilyOption{
		Merger:           mergerType,
		CompactThreshold: thr,
		MaxFileSize:      mfs,
	})
	if err != nil {
		_ = kv.GetStoreManager().CloseStore(dir)
		return nil, fmt.Errorf("create family: %w", err)
	}
	return &world{dir: dir, store: store, family: family, thr: thr, model: newContent()}, nil
}

func (w *world) close() {
	kv.VerifFamilyWait(w.family)
	_ = kv.GetStoreManager().CloseStore(w.dir)
	_ = os.RemoveAll(w.dir)
}

// blockFields returns the field metas of a block (ascending id) and their schema indexes.
func blockFields(b Block) (field.Metas, []int) {
	var metas field.Metas
	var idx []int
	for i, d := range schemas[b.Metric] {
		if b.Fields>>uint(i)&1 == 1 {
			metas = append(metas, field.Meta{ID: d.ID, Type: d.Type, Name: field.Name(fmt.Sprintf("f%d", d.ID)), Persisted: true})
			idx = append(idx, i)
		}
	}
	return metas, idx
}

// flush writes one file exactly like tsdb/data_family.go flushMemoryDatabase + memdb.FlushFamilyTo do:
// kv flusher of the family -> metricsdata.NewFlusher -> per metric PrepareMetric, per series
// (GetEncoder(i).RestWithStartTime, AppendTime/AppendValue over the METRIC-level slot range, BytesWithoutTime,
// FlushField | FlushField(nil)) for every field in meta order, FlushSeries; CommitMetric(slot range); Close.
// Every written value is also added to the reference model.
func (w *world) flush(blocks []Block) error {
	seq := w.flushN
	w.flushN++
	kvf := w.family.NewFlusher()
	defer kvf.Release()
	fl, err := metricsdata.NewFlusher(kvf)
	if err != nil {
		return fmt.Errorf("metricsdata.NewFlusher: %w", err)
	}
	for _, b := range blocks {
		metas, fidx := blockFields(b)
		sr := slotRanges[b.Slots]
		fl.PrepareMetric(b.Metric, metas)
		for _, m := range metas {
			w.model.fields[fieldKey{b.Metric, m.ID}] = m.Type
		}
		for si, sid := range seriesAlphabet {
			if b.Series>>uint(si)&1 == 0 {
				continue
			}
			// which fields have no page for this series (never all of them, never in single-field blocks)
			nils := make([]bool, len(fidx))
			if len(fidx) > 1 {
				n := 0
				for k, fi := range fidx {
					nils[k] = fieldNil(seq, si, fi)
					if nils[k] {
						n++
					}
				}
				if n == len(fidx) {
					nils[0] = false
				}
			}
			for k, fi := range fidx {
				if nils[k] {
					if err := fl.FlushField(nil); err != nil {
						return fmt.Errorf("FlushField(nil): %w", err)
					}
					continue
				}
				enc := fl.GetEncoder(k)
				enc.RestWithStartTime(sr[0])
				for slot := sr[0]; slot <= sr[1]; slot++ {
					if slotPresent(seq, si, fi, slot) {
						v := cellValue(seq, b.Metric, si, fi, slot)
						enc.AppendTime(bit.One)
						enc.AppendValue(math.Float64bits(v))
						ck := cellKey{b.Metric, sid, metas[k].ID, slot}
						w.model.cells[ck] = append(w.model.cells[ck], v)
					} else {
						enc.AppendTime(bit.Zero)
					}
				}
				data, err := enc.BytesWithoutTime()
				if err != nil {
					return fmt.Errorf("TSDEncoder.BytesWithoutTime: %w", err)
				}
				if err := fl.FlushField(data); err != nil {
					return fmt.Errorf("FlushField: %w", err)
				}
			}
			if err := fl.FlushSeries(sid); err != nil {
				return fmt.Errorf("FlushSeries(%d): %w", sid, err)
			}
			w.model.series[seriesKey{b.Metric, sid}] = true
		}
		if err := fl.CommitMetric(timeutil.SlotRange{Start: sr[0], End: sr[1]}); err != nil {
			return fmt.Errorf("CommitMetric(%d): %w", b.Metric, err)
		}
	}
	if err := fl.Close(); err != nil {
		return fmt.Errorf("Flusher.Close: %w", err)
	}
	return nil
}

// compact triggers the family's compaction and waits for the background job.
func (w *world) compact() {
	// family.compact() clears its "compacting" flag after releasing the wait group: own that window
	for !kv.VerifFamilyIdle(w.family) {
		runtime.Gosched()
	}
	if w.thr > 0 {
		kv.VerifStoreCompact(w.store) // periodic job body: needCompact() -> compact()
	} else {
		w.family.Compact()
	}
	kv.VerifFamilyWait(w.family)
}

type fileInfo struct {
	num      table.FileNumber
	min, max uint32
}

type levels struct{ l0, l1 []fileInfo }

func (w *world) levels(snap version.Snapshot) levels {
	var lv levels
	for _, fm := range snap.GetCurrent().GetFiles(0) {
		lv.l0 = append(lv.l0, fileInfo{fm.GetFileNumber(), fm.GetMinKey(), fm.GetMaxKey()})
	}
	for _, fm := range snap.GetCurrent().GetFiles(1) {
		lv.l1 = append(lv.l1, fileInfo{fm.GetFileNumber(), fm.GetMinKey(), fm.GetMaxKey()})
	}
	return lv
}

// observe decodes everything a reader can see: for every metric, every block returned by Snapshot.Load is
// opened with metricsdata.NewReader; per series container the real Load / DataLoader path (metricReader.Load,
// metricLoader.Load, readSeriesData, TSDDecoder) is driven with the block's own field list, and the real
// aggregation.DownSampling (ratio 1) emits the (slot, value) pairs.
func (w *world) observe() (*content, levels, error) {
	snap := w.family.GetSnapshot()
	defer snap.Close()
	lv := w.levels(snap)
	got := newContent()
	for _, metric := range metricIDs {
		err := snap.Load(metric, func(value []byte) error {
			return decodeBlock(metric, value, got)
		})
		if err != nil {
			return nil, lv, fmt.Errorf("Snapshot.Load(%d): %w", metric, err)
		}
	}
	// every file of the version is on disk
	for _, fi := range append(append([]fileInfo{}, lv.l0...), lv.l1...) {
		if _, err := os.Stat(filepath.Join(w.dir, "f", version.Table(fi.num))); err != nil {
			return nil, lv, fmt.Errorf("file %d of the current version: %w", fi.num, err)
		}
	}
	return got, lv, nil
}

func decodeBlock(metric uint32, block []byte, got *content) error {
	r, err := metricsdata.NewReader("c03", block)
	if err != nil {
		return fmt.Errorf("metricsdata.NewReader: %w", err)
	}
	fields := r.GetFields()
	for _, f := range fields {
		got.fields[fieldKey{metric, f.ID}] = f.Type
	}
	ids := r.GetSeriesIDs()
	it := ids.Iterator()
	for it.HasNext() {
		got.series[seriesKey{metric, it.Next()}] = true
	}
	// one value per (series, field, slot) and file
	perFile := map[cellKey]float64{}
	dup := ""
	for i, hk := range ids.GetHighKeys() {
		var container roaring.Container = ids.GetContainerAtIndex(i)
		ctx := &flow.DataLoadContext{
			ShardExecuteCtx:       &flow.ShardExecuteContext{StorageExecuteCtx: &flow.StorageExecuteContext{Fields: fields}},
			SeriesIDHighKey:       hk,
			LowSeriesIDsContainer: container,
			IsMultiField:          len(fields) > 1,
			Decoder:               encoding.GetTSDDecoder(),
		}
		ctx.Grouping()
		ctx.DownSampling = func(slotRange timeutil.SlotRange, seriesIdx uint16, fieldIdx int, getter encoding.TSDValueGetter) {
			sid := uint32(hk)<<16 | uint32(ctx.LowSeriesIDs[seriesIdx])
			aggregation.DownSampling(slotRange, timeutil.SlotRange{Start: 0, End: math.MaxUint16}, 1, 0, getter,
				func(slot int, v float64) {
					ck := cellKey{metric, sid, fields[fieldIdx].ID, uint16(slot)}
					if _, ok := perFile[ck]; ok {
						dup = ck.String()
					}
					perFile[ck] = v
				})
		}
		if loader := r.Load(ctx); loader != nil {
			loader.Load(ctx)
		}
		encoding.ReleaseTSDDecoder(ctx.Decoder)
	}
	if dup != "" {
		return fmt.Errorf("cell %s emitted twice from one block", dup)
	}
	for k, v := range perFile {
		got.cells[k] = append(got.cells[k], v)
	}
	return nil
}
