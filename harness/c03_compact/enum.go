package main

// Enumeration families. Every family is a complete cross product of the listed alphabets (never sampled).
//
//	pair   : F(A) F(B) C            A, B over metric 1: series sets x field sets x slot ranges
//	multi  : F(A) F(B) C            A, B files over metrics {1}, {2}, {1,2} (curated block shapes per metric)
//	triple : F(A) F(B) F(C) C       metric 1, curated block shapes
//	l1     : F F C F F C            an earlier compaction produced a level-1 file (overlapping or not)
//	span   : F F C F F C            the same over files holding any subset of three metrics (a level-1 file may span another one)
//	wide   : F(A) F(B) C            slot range of 362 slots (> 360) next to short ones
//	seq    : all sequences of length <= 4 over {flush of a curated file, compact}; threshold 0
//	         (Family.Compact(), >=2 L0 files) and threshold 1 (store job: trivial move, 1 x L0 + L1 merges)
//	roll   : MaxFileSize = 1 (one output file per metric) over metrics subsets of {1,2,3}
//
// Series-set masks are over seriesAlphabet {0, 65535, 65536, 65537, 131072} (bit 0 = series 0).
// Field-set masks are over schemas[metric] (bit 0 = first field).

const (
	s0     = 1 << 0
	s65535 = 1 << 1
	s65536 = 1 << 2
	s65537 = 1 << 3
	s131k  = 1 << 4
	sAll   = 31
)

// metric 1 field bits: sum, min, max, last, first, histogram
const (
	fSum = 1 << iota
	fMin
	fMax
	fLast
	fFirst
	fHist
	fAll1 = 63
)

type alphabet struct {
	series []uint8
	fields []uint8
	slots  []int
}

func (a alphabet) blocks(metric uint32) []Block {
	var out []Block
	for _, s := range a.series {
		for _, f := range a.fields {
			for _, t := range a.slots {
				out = append(out, Block{Metric: metric, Series: s, Fields: f, Slots: t})
			}
		}
	}
	return out
}

var allSlots = []int{0, 1, 2, 3}

// pruned alphabet of the quick pair family (6 x 6 x 4 = 144 block shapes)
var pairQuick = alphabet{
	series: []uint8{s0, s65535 | s65536, s65536 | s65537, s0 | s131k, s65537, sAll},
	fields: []uint8{fSum, fMin | fMax, fLast | fFirst, fSum | fHist, fMax, fAll1},
	slots:  allSlots,
}

// thorough pair family (12 x 10 x 4 = 480 block shapes)
var pairThorough = alphabet{
	series: []uint8{s0, s65535, s65536, s131k, s65535 | s65536, s65536 | s65537, s0 | s131k, s0 | s65536, s65535 | s65537 | s131k,
		s0 | s65535 | s65536, s65537, sAll},
	fields: []uint8{fSum, fMin, fMax, fLast, fFirst, fMin | fMax, fLast | fFirst, fSum | fHist, fSum | fMin | fLast | fHist, fAll1},
	slots:  allSlots,
}

// curated block shapes (metric 1)
func curated1(n int) []Block {
	all := []Block{
		{1, s0 | s65536, fSum | fMin, 0},
		{1, s65536 | s65537, fMin | fMax | fLast, 1},
		{1, s0 | s131k, fFirst, 2},
		{1, sAll, fAll1, 3},
		{1, s65535 | s65536, fSum | fHist, 3},
		{1, s65537, fLast | fFirst, 0},
		{1, s0, fMax, 1},
		{1, s65535 | s131k, fSum | fLast | fFirst, 0},
		{1, s0 | s65535 | s65536, fMin | fHist, 1},
		{1, s131k, fSum, 3},
		{1, sAll, fSum, 0},
		{1, s65536, fAll1, 2},
		// thorough only
		{1, s65535, fHist, 2},
		{1, s0 | s65537, fSum | fMax | fFirst, 3},
		{1, s65536 | s131k, fMin, 0},
		{1, s0 | s65535, fLast, 3},
		{1, sAll, fMin | fMax, 1},
		{1, s65535 | s65536 | s65537, fSum | fMin | fMax | fLast | fFirst, 0},
		{1, s65537 | s131k, fHist | fFirst, 1},
		{1, s0 | s65536 | s131k, fAll1, 0},
		{1, s65535 | s65537, fSum | fMin, 2},
		{1, s0, fAll1, 3},
		{1, s131k, fLast | fHist, 1},
		{1, s65536, fSum | fMax, 3},
	}
	return all[:n]
}

// curated block shapes (metric 2: fields first(1), histogram(7), histogram(8), max(200))
func curated2(n int) []Block {
	all := []Block{
		{2, s0 | s65536, 1 | 2, 0},
		{2, s65535 | s65536 | s65537, 2 | 4, 1},
		{2, sAll, 15, 3},
		{2, s131k, 8, 2},
		{2, s0 | s131k, 1 | 8, 1},
		{2, s65537, 4, 0},
		{2, s65536, 15, 2},
		{2, s0 | s65535, 2 | 4 | 8, 3},
		// thorough only
		{2, s65535, 1, 3},
		{2, s65536 | s131k, 2, 0},
		{2, sAll, 1 | 4, 1},
		{2, s0 | s65537, 15, 0},
	}
	return all[:n]
}

// curated block shapes (metric 3: sum(1), min(2))
var curated3 = []Block{
	{3, s0 | s65536, 3, 0},
	{3, s65535 | s131k, 1, 1},
	{3, sAll, 2, 3},
}

// files over metrics {1}, {2}, {1,2}
func multiFiles(b1, b2 []Block) [][]Block {
	var out [][]Block
	for _, a := range b1 {
		out = append(out, []Block{a})
	}
	for _, b := range b2 {
		out = append(out, []Block{b})
	}
	for _, a := range b1 {
		for _, b := range b2 {
			out = append(out, []Block{a, b})
		}
	}
	return out
}

// small mixed file alphabet of the l1 / seq families
func smallFiles(n int) [][]Block {
	c1, c2 := curated1(12), curated2(8)
	all := [][]Block{
		{c1[0]},
		{c2[1]},
		{c1[3], c2[2]},
		{c1[1], c2[0]},
		{c1[2]},
		{c2[3]},
		// thorough only
		{c1[4]},
		{c1[7], c2[4]},
		{c2[6]},
		{c1[8]},
		{c1[5], c2[5]},
		{c1[11]},
	}
	return all[:n]
}

// roll-over files: per metric of {1,2,3}: absent or one of k shapes
func rollFiles(k int) [][]Block {
	opts := [][]Block{
		{{1, s0 | s65536, fSum | fMin, 0}, {1, s65536 | s65537, fAll1, 3}, {1, s131k, fLast, 2}},
		{{2, s0 | s65536, 1 | 2, 0}, {2, sAll, 15, 1}, {2, s65535, 8, 3}},
		{{3, s0 | s65536, 3, 0}, {3, s65535 | s131k, 1, 1}, {3, sAll, 2, 3}},
	}
	var out [][]Block
	n := k + 1
	for a := 0; a < n; a++ {
		for b := 0; b < n; b++ {
			for c := 0; c < n; c++ {
				var f []Block
				for m, x := range []int{a, b, c} {
					if x > 0 {
						f = append(f, opts[m][x-1])
					}
				}
				if len(f) > 0 {
					out = append(out, f)
				}
			}
		}
	}
	return out
}

func flush(b []Block) Step { return Step{Op: "flush", Blocks: b} }

var compactStep = Step{Op: "compact"}

// product calls f with every tuple of k files.
func product(files [][]Block, k int, f func(t [][]Block) bool) bool {
	idx := make([]int, k)
	t := make([][]Block, k)
	for {
		for i, x := range idx {
			t[i] = files[x]
		}
		if !f(t) {
			return false
		}
		i := k - 1
		for i >= 0 {
			idx[i]++
			if idx[i] < len(files) {
				break
			}
			idx[i] = 0
			i--
		}
		if i < 0 {
			return true
		}
	}
}

func single(bs []Block) [][]Block {
	out := make([][]Block, len(bs))
	for i, b := range bs {
		out[i] = []Block{b}
	}
	return out
}

// sequences over {files..., compact} of length 1..maxLen.
func sequences(files [][]Block, maxLen int, f func(steps []Step) bool) bool {
	n := len(files) + 1
	for l := 1; l <= maxLen; l++ {
		idx := make([]int, l)
		for {
			steps := make([]Step, l)
			for i, x := range idx {
				if x == len(files) {
					steps[i] = compactStep
				} else {
					steps[i] = flush(files[x])
				}
			}
			if !f(steps) {
				return false
			}
			i := l - 1
			for i >= 0 {
				idx[i]++
				if idx[i] < n {
					break
				}
				idx[i] = 0
				i--
			}
			if i < 0 {
				break
			}
		}
	}
	return true
}

// forEachCase enumerates the in-process part ("enum").
func forEachCase(thorough bool, f func(c *Case) bool) {
	emit := func(family string, mfs uint32, thr int, steps ...Step) bool {
		return f(&Case{Family: family, MaxFileSize: mfs, Threshold: thr, Steps: append([]Step(nil), steps...)})
	}
	// pair
	pa := pairQuick
	if thorough {
		pa = pairThorough
	}
	if !product(single(pa.blocks(1)), 2, func(t [][]Block) bool {
		return emit("pair", 0, 0, flush(t[0]), flush(t[1]), compactStep)
	}) {
		return
	}
	// multi
	n1, n2 := 8, 8
	if thorough {
		n1, n2 = 12, 12
	}
	if !product(multiFiles(curated1(n1), curated2(n2)), 2, func(t [][]Block) bool {
		return emit("multi", 0, 0, flush(t[0]), flush(t[1]), compactStep)
	}) {
		return
	}
	// triple
	n3 := 12
	if thorough {
		n3 = 24
	}
	if !product(single(curated1(n3)), 3, func(t [][]Block) bool {
		return emit("triple", 0, 0, flush(t[0]), flush(t[1]), flush(t[2]), compactStep)
	}) {
		return
	}
	// l1: the first compaction leaves a level-1 file, the second one merges 2 (thorough: also 3) level-0 files with it (or not: no overlap)
	ns := 6
	if thorough {
		ns = 9
	}
	if !product(smallFiles(ns), 4, func(t [][]Block) bool {
		return emit("l1", 0, 0, flush(t[0]), flush(t[1]), compactStep, flush(t[2]), flush(t[3]), compactStep)
	}) {
		return
	}
	if thorough {
		if !product(smallFiles(6), 5, func(t [][]Block) bool {
			return emit("l1x3", 0, 0, flush(t[0]), flush(t[1]), compactStep, flush(t[2]), flush(t[3]), flush(t[4]), compactStep)
		}) {
			return
		}
	}
	// span: three metrics (keys 1,2,3), files holding any non-empty subset: the second compaction may produce a level-1
	// file whose key range spans an older level-1 file without sharing a key with it ({2} {2} C {1} {3} C)
	if !product(rollFiles(1), 4, func(t [][]Block) bool {
		return emit("span", 0, 0, flush(t[0]), flush(t[1]), compactStep, flush(t[2]), flush(t[3]), compactStep)
	}) {
		return
	}
	// seq: every sequence of length <= 4 (thorough: also length 5 over the quick alphabet)
	nq := 6
	if thorough {
		nq = 12
	}
	for _, thr := range []int{0, 1} {
		thr := thr
		if !sequences(smallFiles(nq), 4, func(steps []Step) bool { return emit("seq", 0, thr, steps...) }) {
			return
		}
	}
	// wide: slot ranges longer than 360 slots (heap path of the down-sampling aggregator) next to short ones
	wide := alphabet{series: []uint8{s0 | s65536, sAll}, fields: []uint8{fSum, fMin | fMax, fAll1}, slots: []int{4, 3, 2}}
	if !product(single(wide.blocks(1)), 2, func(t [][]Block) bool {
		return emit("wide", 0, 0, flush(t[0]), flush(t[1]), compactStep)
	}) {
		return
	}
	// MaxFileSize=1 with a single metric never rolls the output into a second file: safe in-process
	if !product(single(curated1(8)), 2, func(t [][]Block) bool {
		return emit("pair-mfs1", 1, 0, flush(t[0]), flush(t[1]), compactStep)
	}) {
		return
	}
}

// minimalRollCase: two level-0 files holding one metric each (one series, one field, one slot), MaxFileSize=1:
// the merged output needs two files.
func minimalRollCase() *Case {
	return &Case{Family: "roll-min", MaxFileSize: 1, Steps: []Step{
		flush([]Block{{1, s0, fSum, 2}}), flush([]Block{{2, s0, 1, 2}}), compactStep}}
}

// forEachRollCase enumerates the roll-over part ("roll"): MaxFileSize = 1, metrics subsets of {1,2,3};
// every case that holds >= 2 metrics rolls the compaction output over several files.
func forEachRollCase(thorough bool, f func(c *Case) bool) {
	emit := func(family string, thr int, steps ...Step) bool {
		return f(&Case{Family: family, MaxFileSize: 1, Threshold: thr, Steps: append([]Step(nil), steps...)})
	}
	k := 2
	if thorough {
		k = 3
	}
	if !product(rollFiles(k), 2, func(t [][]Block) bool {
		return emit("roll", 0, flush(t[0]), flush(t[1]), compactStep)
	}) {
		return
	}
	// an earlier (rolled) compaction left several level-1 files; the next one overlaps some of them
	l1 := rollFiles(1)
	if !thorough {
		l1 = [][]Block{l1[0], l1[2], l1[3], l1[5], l1[6]} // {3}, {2,3}, {1}, {1,2}, {1,2,3}
	}
	if !product(l1, 4, func(t [][]Block) bool {
		return emit("roll-l1", 0, flush(t[0]), flush(t[1]), compactStep, flush(t[2]), flush(t[3]), compactStep)
	}) {
		return
	}
	if !product(rollFiles(1), 3, func(t [][]Block) bool {
		return emit("roll-x3", 0, flush(t[0]), flush(t[1]), flush(t[2]), compactStep)
	}) {
		return
	}
	// store job with threshold 1: a single level-0 file with several metrics is moved, then merged with the next one
	if !sequences(rollFiles(1), 3, func(steps []Step) bool { return emit("roll-seq", 1, steps...) }) {
		return
	}
	if thorough {
		r1 := rollFiles(1)
		if !sequences([][]Block{r1[0], r1[2], r1[5], r1[6]}, 4, func(steps []Step) bool { return emit("roll-seq4", 0, steps...) }) {
			return
		}
	}
}
