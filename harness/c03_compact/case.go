package main

import (
	"fmt"
	"path/filepath"

	"github.com/lindb/lindb/internal/vevid"
	"github.com/lindb/lindb/kv/table"
)

// result of one executed case (JSON: the child process of the roll-over part reports it on a line).
type result struct {
	Violations      []vevid.Violation `json:"violations,omitempty"`
	Outcome         string            `json:"outcome"`
	Nontrivial      bool              `json:"nontrivial"`
	CompactExpected int               `json:"compact_expected"`
	CompactMerged   int               `json:"compact_merged"`
	CompactMoved    int               `json:"compact_moved"`
	CompactFailed   int               `json:"compact_failed"`
	OutputFiles     int               `json:"output_files"` // max number of files written by one merge compaction
	MergedCells     int               `json:"merged_cells"` // cells with >=2 contributions that went through a merge
	Fatal           string            `json:"fatal,omitempty"`
}

func bucket(n int) string {
	switch {
	case n == 0:
		return "0"
	case n <= 4:
		return "1-4"
	case n <= 16:
		return "5-16"
	case n <= 64:
		return "17-64"
	}
	return ">64"
}

func hasNum(fs []fileInfo, n table.FileNumber) bool {
	for _, f := range fs {
		if f.num == n {
			return true
		}
	}
	return false
}

// runCase executes the history on a fresh real store and evaluates the oracle after every step.
func runCase(c *Case, scratch string) (res result) {
	viol := func(after, clause, site, detail string) {
		res.Violations = append(res.Violations, vevid.Violation{
			Clause: clause, Scenario: c.Class() + " after=" + after, Site: site,
			Detail: detail + "\n  history: " + c.String(), Replay: *c})
	}
	defer func() {
		if r := recover(); r != nil {
			viol("?", "panic", "lindb", fmt.Sprint(r))
			res.Outcome = "panic"
		}
	}()
	w, err := newWorld(filepath.Join(scratch, "kv"), c.MaxFileSize, c.Threshold)
	if err != nil {
		res.Fatal = err.Error()
		return
	}
	defer w.close()

	var lv levels
	shape := ""
	for i, st := range c.Steps {
		before := lv
		switch st.Op {
		case "flush":
			if err := w.flush(st.Blocks); err != nil {
				viol("flush", "flush-error", "metricsdata.Flusher", fmt.Sprintf("step %d: %v", i, err))
				res.Outcome = "flush-error"
				return
			}
		case "compact":
			w.compact()
			afterCompact()
		default:
			res.Fatal = "unknown op " + st.Op
			return
		}
		got, now, err := w.observe()
		lv = now
		if err != nil {
			viol(st.Op, "read-error", "version.Snapshot.Load", fmt.Sprintf("step %d (%s): %v", i, st.Op, err))
			res.Outcome = "read-error"
			return
		}
		if mm := compare(w.model, got); mm != nil {
			viol(st.Op, mm.clause, mm.site, fmt.Sprintf("step %d (%s): %s", i, st.Op, mm.detail))
			res.Outcome = mm.clause
			return
		}
		// several files one level up: a lookup walks them in the iteration order of a Go map, which the harness does
		// not own - the read is repeated so that every order of two or three files is seen with high probability
		for r := 0; r < 7 && len(now.l1) >= 2; r++ {
			got, _, err := w.observe()
			if err != nil {
				viol(st.Op, "read-error", "version.Snapshot.Load", fmt.Sprintf("step %d (%s), read %d: %v", i, st.Op, r+2, err))
				res.Outcome = "read-error"
				return
			}
			if mm := compare(w.model, got); mm != nil {
				viol(st.Op, mm.clause, mm.site, fmt.Sprintf("step %d (%s), read %d of the same version: %s", i, st.Op, r+2, mm.detail))
				res.Outcome = mm.clause
				return
			}
		}
		if st.Op != "compact" {
			shape += "F"
			continue
		}
		// ---- version clauses of a compaction step ----
		expected := len(before.l0) > 1 || (c.Threshold > 0 && len(before.l0) >= c.Threshold)
		if !expected {
			shape += "c" // nothing to compact
			if len(now.l0) != len(before.l0) || len(now.l1) != len(before.l1) {
				viol("compact", "version-install", "kv.family.Compact", fmt.Sprintf("step %d: no compaction was due (L0=%d) but the version changed: L0 %d->%d, L1 %d->%d", i, len(before.l0), len(before.l0), len(now.l0), len(before.l1), len(now.l1)))
				res.Outcome = "version-install"
				return
			}
			continue
		}
		res.CompactExpected++
		// level-1 inputs = files overlapping the key range of some level-0 file
		var upIn, upKeep []fileInfo
		for _, u := range before.l1 {
			in := false
			for _, l := range before.l0 {
				if !(u.max < l.min || u.min > l.max) {
					in = true
				}
			}
			if in {
				upIn = append(upIn, u)
			} else {
				upKeep = append(upKeep, u)
			}
		}
		if len(now.l0) == len(before.l0) && len(now.l0) > 0 && hasNum(now.l0, before.l0[0].num) {
			// the job failed (error logged by lindb) and left everything in place: the reader-visible
			// content was compared above; counted, guarded against vacuity by the caller
			res.CompactFailed++
			shape += "X"
			continue
		}
		move := len(before.l0) == 1 && len(upIn) == 0
		bad := ""
		if len(now.l0) != 0 {
			bad = fmt.Sprintf("level 0 still holds %d file(s)", len(now.l0))
		}
		for _, f := range before.l0 {
			if hasNum(now.l0, f.num) || (!move && hasNum(now.l1, f.num)) {
				bad = fmt.Sprintf("input file %d (level 0) is still in the version", f.num)
			}
			if move && !hasNum(now.l1, f.num) {
				bad = fmt.Sprintf("moved file %d is not in level 1", f.num)
			}
		}
		for _, f := range upIn {
			if hasNum(now.l1, f.num) {
				bad = fmt.Sprintf("input file %d (level 1, overlapping) is still in the version", f.num)
			}
		}
		for _, f := range upKeep {
			if !hasNum(now.l1, f.num) {
				bad = fmt.Sprintf("level-1 file %d was not an input but left the version", f.num)
			}
		}
		outputs := 0
		for _, f := range now.l1 {
			if !hasNum(before.l1, f.num) && !hasNum(before.l0, f.num) {
				outputs++
			}
		}
		if !move && outputs == 0 {
			bad = "no output file was added to level 1"
		}
		if bad != "" {
			viol("compact", "version-install", "kv.compactJob.installCompactionResults", fmt.Sprintf("step %d: %s (before L0=%v L1=%v, after L0=%v L1=%v)", i, bad, before.l0, before.l1, now.l0, now.l1))
			res.Outcome = "version-install"
			return
		}
		if move {
			res.CompactMoved++
			shape += "M"
		} else {
			res.CompactMerged++
			if outputs > res.OutputFiles {
				res.OutputFiles = outputs
			}
			shape += fmt.Sprintf("C(%d+%d>%d)", len(before.l0), len(upIn), outputs)
			// after a merge the whole content sits in merged files: every multi-contribution cell went through it
			// (an approximation from above only for cells of level-1 files that were not inputs)
			n := 0
			for _, vs := range w.model.cells {
				if len(vs) >= 2 {
					n++
				}
			}
			if n > res.MergedCells {
				res.MergedCells = n
			}
		}
	}
	res.Nontrivial = res.MergedCells > 0
	res.Outcome = fmt.Sprintf("%s %s cells=%s merged-cells=%s series=%d fields=%d", c.Family, shape,
		bucket(len(w.model.cells)), bucket(res.MergedCells), len(w.model.series), len(w.model.fields))
	return
}
