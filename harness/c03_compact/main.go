// C03 harness: compaction of metric data never changes what a reader can observe.
//
// Bounded exhaustive enumeration of flush / compact histories on the real code: files are written with the real
// metricsdata.Flusher over the real kv flusher of a real kv.Family (merger = MetricDataMerger, registered by the
// metricsdata package), compaction is Family.Compact() (or the store's periodic job body) + wait, and everything
// is read back through Snapshot.Load + metricsdata.NewReader + the real Load / DataLoader path. After EVERY step
// the readable content is compared with a reference model (maps of the contributed values).
//
// Parts (same binary, -part):
//
//	enum : histories whose compaction output cannot roll over into a second file; in-process
//	roll : MaxFileSize=1 with up to three metrics (output split over several files); every batch of cases runs
//	       in a child process (os.Args[0] -child spec.json) because a panic in lindb's background compaction
//	       goroutine kills the process: the crashed case is reported under clause output-rollover and the
//	       remaining cases continue in a new child.
package main

import (
	"bufio"
	"bytes"
	"encoding/json"
	"fmt"
	"os"
	"os/exec"
	"path/filepath"
	"runtime/debug"
	"strings"
	"sync/atomic"
	"time"

	"github.com/lindb/common/pkg/logger"
	"go.uber.org/zap/zapcore"

	"github.com/lindb/lindb/internal/vevid"
	"github.com/lindb/lindb/kv"
	"github.com/lindb/lindb/tsdb/tblstore/metricsdata"
)

const rule = "every history of the enumeration families (complete cross products of the shape alphabets, see bounds) is executed on a fresh real store; the oracle is evaluated after every step. non-trivial = at least one merge compaction processed a (metric, series, field, slot) cell contributed by >= 2 files; distinct = distinct history"

func quiet() {
	// failed compaction jobs are logged at error level with a stack: thousands of lines on a mutated tree
	logger.RunningAtomicLevel.SetLevel(zapcore.FatalLevel)
}

func main() {
	if len(os.Args) >= 3 && os.Args[1] == "-child" {
		quiet()
		childMain(os.Args[2])
		return
	}
	f := vevid.ParseFlags()
	rep := vevid.New("C03")
	quiet()
	rep.Rule = rule
	rep.Bounds["series_alphabet"] = seriesAlphabet
	rep.Bounds["slot_ranges"] = slotRanges
	rep.Bounds["metric_schemas"] = "1: sum(1) min(2) max(3) last(4) first(5) histogram(6); 2: first(1) histogram(7) histogram(8) max(200); 3: sum(1) min(2); every block carries a per-file subset"
	rep.Bounds["values"] = "integers 1..23, distinct between files for the same cell, about one cell in 19 holds -Inf; ~20% of the slots of a block empty; ~1/7 of the (series, field) pairs of a multi-field block flushed as FlushField(nil)"
	rep.Bounds["tier"] = f.Tier
	roll := f.Part == "roll"

	if f.Replay != "" {
		var c Case
		vevid.LoadReplay(f.Replay, &c)
		fails := 0
		for i := 0; i < 5; i++ {
			before := rep.ViolationCount
			if c.MaxFileSize == 1 {
				runBatch(rep, f, []*Case{&c})
			} else {
				account(rep, &c, runCase(&c, f.Scratch))
			}
			if rep.ViolationCount > before {
				fails++
			}
		}
		rep.Extra["replay_failures_of_5"] = fails
		rep.Write()
		return
	}

	var idx int64
	if roll {
		var mine []*Case
		forEachRollCase(f.Thorough(), func(c *Case) bool {
			idx++
			if f.Mine(idx) {
				mine = append(mine, c)
			}
			return true
		})
		const batch = 48
		// the canonical minimal roll-over history is executed first by every worker (deterministic minimal replay)
		runBatch(rep, f, []*Case{minimalRollCase()})
		for i := 0; i < len(mine); i += batch {
			if f.Expired() {
				rep.Cap(fmt.Sprintf("deadline at roll case %d of %d (this shard)", i, len(mine)))
				break
			}
			j := i + batch
			if j > len(mine) {
				j = len(mine)
			}
			runBatch(rep, f, mine[i:j])
		}
	} else {
		forEachCase(f.Thorough(), func(c *Case) bool {
			idx++
			if !f.Mine(idx) {
				return true
			}
			if idx%256 == 0 && f.Expired() {
				rep.Cap(fmt.Sprintf("deadline at case %d (%s)", idx, c.Family))
				return false
			}
			account(rep, c, runCase(c, f.Scratch))
			return true
		})
	}
	rep.Extra["enumerated_cases_all_shards"] = idx
	// vacuity guard: compactions must actually have happened
	exp, done := rep.Counters["compactions_due"], rep.Counters["compactions_merged"]+rep.Counters["compactions_moved"]
	if rep.ViolationCount == 0 && exp > 0 && done*2 < exp {
		vevid.Fatal("vacuous: %d compactions were due, only %d were performed (%d failed with an error inside lindb)", exp, done, rep.Counters["compactions_failed"])
	}
	rep.Write()
}

var sampled = map[string]bool{}

// account merges the result of one case into the report.
func account(rep *vevid.Report, c *Case, r result) {
	if r.Fatal != "" {
		vevid.Fatal("case %s: %s", c.String(), r.Fatal)
	}
	rep.Evaluations++
	rep.Count("cases_"+c.Family, 1)
	rep.Count("compactions_due", int64(r.CompactExpected))
	rep.Count("compactions_merged", int64(r.CompactMerged))
	rep.Count("compactions_moved", int64(r.CompactMoved))
	rep.Count("compactions_failed", int64(r.CompactFailed))
	if r.OutputFiles >= 2 {
		rep.Count("cases_output_split_over_several_files", 1)
	}
	if m, _ := rep.Extra["max_output_files_of_one_compaction"].(int); r.OutputFiles > m {
		rep.Extra["max_output_files_of_one_compaction"] = r.OutputFiles
	}
	if r.Nontrivial {
		rep.DistinctNontrivial++
	}
	rep.Outcome(r.Outcome)
	for _, v := range r.Violations {
		rep.Violate(v)
	}
	if r.Nontrivial && len(c.Steps) >= 3 && !sampled[c.Family] {
		sampled[c.Family] = true
		rep.Sample(*c)
	}
}

// ---- roll-over part: child processes ----------------------------------------------------------------------

type childSpec struct {
	Cases   []*Case `json:"cases"`
	Start   int     `json:"start"`
	Out     string  `json:"out"`
	Crash   string  `json:"crash"`
	Scratch string  `json:"scratch"`
}

// crashNote is written by the child when lindb panics inside Merger.Merge on the compaction goroutine, before the
// panic continues (a panic unwinding that goroutine releases the family's wait group in a deferred call, so the
// main goroutine could otherwise finish the case - and later ones - before the runtime kills the process).
type crashNote struct {
	Case  int    `json:"case"`
	Panic string `json:"panic"`
	Stack string `json:"stack"`
}

var (
	childCase     atomic.Int64 // index of the case being executed by this child
	childCrash    string       // file for the crash note
	mergePanicked atomic.Bool
)

const wrappedMerger = "c03_marking_MetricDataMerger"

// markingMerger delegates to the real metric data merger; a panic passing through Merge is noted and re-raised unchanged.
type markingMerger struct{ kv.Merger }

func (m *markingMerger) Merge(key uint32, values [][]byte) error {
	defer func() {
		if r := recover(); r != nil {
			js, _ := json.Marshal(crashNote{Case: int(childCase.Load()), Panic: fmt.Sprint(r), Stack: string(debug.Stack())})
			_ = os.WriteFile(childCrash, js, 0o644)
			mergePanicked.Store(true)
			panic(r)
		}
	}()
	return m.Merger.Merge(key, values)
}

func childMain(specPath string) {
	b, err := os.ReadFile(specPath)
	if err != nil {
		fmt.Fprintln(os.Stderr, "HARNESS-ERROR: child spec:", err)
		os.Exit(3)
	}
	var spec childSpec
	if err := json.Unmarshal(b, &spec); err != nil {
		fmt.Fprintln(os.Stderr, "HARNESS-ERROR: child spec:", err)
		os.Exit(3)
	}
	out, err := os.OpenFile(spec.Out, os.O_APPEND|os.O_CREATE|os.O_WRONLY, 0o644)
	if err != nil {
		fmt.Fprintln(os.Stderr, "HARNESS-ERROR: child out:", err)
		os.Exit(3)
	}
	childCrash = spec.Crash
	kv.RegisterMerger(wrappedMerger, func(fl kv.Flusher) (kv.Merger, error) {
		m, err := metricsdata.NewMerger(fl)
		if err != nil {
			return nil, err
		}
		return &markingMerger{m}, nil
	})
	mergerType = wrappedMerger
	for i := spec.Start; i < len(spec.Cases); i++ {
		childCase.Store(int64(i))
		r := runCase(spec.Cases[i], spec.Scratch)
		js, _ := json.Marshal(r)
		// one write per finished case: a later crash cannot lose it
		if _, err := out.Write(append(js, '\n')); err != nil {
			fmt.Fprintln(os.Stderr, "HARNESS-ERROR: child out:", err)
			os.Exit(3)
		}
	}
	_ = out.Close()
}

// afterCompact is called by runCase behind every compaction: if lindb panicked on the compaction goroutine the
// process is about to be killed by the runtime; do not run ahead of it.
func afterCompact() {
	if mergePanicked.Load() {
		time.Sleep(60 * time.Second)
		// still alive: somebody recovered the panic; go on
		mergePanicked.Store(false)
	}
}

// lindbFrame returns the first lindb (non-harness) function of a stack trace.
func lindbFrame(trace string) string {
	for _, ln := range strings.Split(trace, "\n") {
		if strings.HasPrefix(ln, "github.com/lindb/lindb/") && !strings.Contains(ln, "/verif_h/") && !strings.Contains(ln, "/internal/v") {
			site := strings.TrimPrefix(ln, "github.com/lindb/lindb/")
			if p := strings.LastIndex(site, "("); p > 0 {
				site = site[:p]
			}
			return site
		}
	}
	return ""
}

// crashSite extracts the panic head line and the crashing goroutine from the stderr of a dead process.
func crashSite(stderr string) (head, trace string) {
	i := strings.Index(stderr, "panic:")
	if j := strings.Index(stderr, "fatal error:"); i < 0 || (j >= 0 && j < i) {
		i = j
	}
	if i < 0 {
		return "", ""
	}
	tail := stderr[i:]
	head = strings.SplitN(tail, "\n", 2)[0]
	first := tail
	if k := strings.Index(tail, "\ngoroutine "); k >= 0 {
		first = tail[k+1:]
		if e := strings.Index(first, "\n\n"); e >= 0 {
			first = first[:e]
		}
	}
	return head, first
}

func clip(s string, n int) string {
	if len(s) > n {
		return s[:n]
	}
	return s
}

// runBatch runs the cases in child processes; a child that dies is restarted behind the case that killed it.
func runBatch(rep *vevid.Report, f *vevid.Flags, cases []*Case) {
	dir := filepath.Join(f.Scratch, "roll")
	_ = os.RemoveAll(dir)
	if err := os.MkdirAll(dir, 0o755); err != nil {
		vevid.Fatal("scratch: %v", err)
	}
	defer os.RemoveAll(dir)
	specPath, outPath, crashPath := filepath.Join(dir, "spec.json"), filepath.Join(dir, "out.jsonl"), filepath.Join(dir, "crash.json")
	start := 0
	for start < len(cases) {
		js, _ := json.Marshal(childSpec{Cases: cases, Start: start, Out: outPath, Crash: crashPath, Scratch: dir})
		if err := os.WriteFile(specPath, js, 0o644); err != nil {
			vevid.Fatal("spec: %v", err)
		}
		_ = os.Remove(outPath)
		_ = os.Remove(crashPath)
		cmd := exec.Command(os.Args[0], "-child", specPath)
		var stderr bytes.Buffer
		cmd.Stdout, cmd.Stderr = &stderr, &stderr
		cmd.Dir = dir
		runErr := cmd.Run()
		rep.Count("child_processes", 1)
		// results of the finished cases
		n := 0
		if fh, err := os.Open(outPath); err == nil {
			sc := bufio.NewScanner(fh)
			sc.Buffer(make([]byte, 1<<20), 1<<26)
			for sc.Scan() {
				var r result
				if err := json.Unmarshal(sc.Bytes(), &r); err != nil {
					break // torn last line: the case did not finish
				}
				if start+n < len(cases) {
					account(rep, cases[start+n], r)
				}
				n++
			}
			fh.Close()
		}
		if runErr == nil {
			if start+n != len(cases) {
				vevid.Fatal("child exited 0 after %d of %d cases", start+n, len(cases))
			}
			return
		}
		if ee, ok := runErr.(*exec.ExitError); !ok || ee.ExitCode() == 3 {
			vevid.Fatal("child process: %v: %s", runErr, clip(strings.ReplaceAll(stderr.String(), "panic:", "panic;"), 3000))
		}
		// the process died; which case killed it?
		killer := start + n
		head, trace := crashSite(stderr.String())
		site := lindbFrame(trace)
		if b, err := os.ReadFile(crashPath); err == nil {
			var note crashNote
			if json.Unmarshal(b, &note) == nil {
				if note.Case != killer {
					vevid.Fatal("crash note names case %d, but %d results were written by the child started at %d", note.Case, n, start)
				}
				head = "panic: " + note.Panic
				// the recorded stack starts in the deferred marker; the frames below the runtime's panic frames are lindb's
				if i := strings.Index(note.Stack, "panic("); i >= 0 {
					note.Stack = note.Stack[i:]
				}
				trace = note.Stack
				site = lindbFrame(trace)
			}
		} else if head == "" || strings.Contains(trace, "/verif_h/") || strings.Contains("\n"+trace, "\nmain.") {
			// no lindb panic: the harness itself is broken ("panic;" keeps the driver from reading it as a lindb crash)
			vevid.Fatal("child died (%v) without a lindb panic: %s", runErr, clip(strings.ReplaceAll(stderr.String(), "panic:", "panic;"), 4000))
		}
		if killer >= len(cases) {
			vevid.Fatal("child died after its last case (%v): %s", runErr, clip(strings.ReplaceAll(stderr.String(), "panic:", "panic;"), 3000))
		}
		c := cases[killer]
		rep.Evaluations++
		rep.Count("cases_"+c.Family, 1)
		rep.Count("cases_process_killed", 1)
		rep.Outcome(c.Family + " process-killed " + site)
		rep.Violate(vevid.Violation{
			Clause:   "output-rollover",
			Scenario: "compaction output split over several files (MaxFileSize=1, >=2 metrics)",
			Site:     site,
			Detail: fmt.Sprintf("the process was killed while compacting (a goroutine started by lindb panicked): %s\n  history: %s\n%s",
				head, c.String(), clip(trace, 2500)),
			Replay: *c,
		})
		start = killer + 1
	}
}
