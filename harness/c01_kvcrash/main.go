// C01 harness: every history (up to a length bound) of create-family / flush / flush-with-sequence /
// empty flush / level-0 compaction / reopen on a real kv store, and - for each history - a crash image
// after EVERY file-system seam call (manifest and table writers, CURRENT tmp-write + rename, OPTIONS
// tmp-write + rename, mkdir, file removal), including the seam calls of reopen (= recovery) itself.
// Every distinct image is recovered by the real store and compared with the reference model of the
// acknowledged operations (the single operation in flight may appear entirely or not at all).
package main

import (
	"fmt"
	"os"
	"path/filepath"
	"runtime"
	"sort"
	"strings"

	"github.com/lindb/lindb/internal/vcrashfs"
	"github.com/lindb/lindb/internal/venum"
	"github.com/lindb/lindb/internal/vevid"
	vos "github.com/lindb/lindb/internal/vos"
	"github.com/lindb/lindb/kv"
	"github.com/lindb/lindb/kv/table"
	"github.com/lindb/lindb/kv/version"
	"github.com/lindb/lindb/pkg/bufioutil"
	"github.com/lindb/lindb/pkg/timeutil"
)

// ---------------------------------------------------------------------------------------------------
// operations

const (
	opCreateA = iota
	opCreateB
	opFlush1A // one key
	opFlush1B
	opFlush2A // two keys (second one above 65535)
	opFlush2B
	opFlushEmptyA // flusher without Add: Commit abandons nothing / writes only bookkeeping
	opFlushEmptyB
	opFlushSeqA // one key + replica sequence
	opFlushSeqB
	opCompactA
	opCompactB
	opReopen
	nOps
	// curated histories only (family b = kv family id 2): rollup bookkeeping of a target family - a reference to file 10
	// of family 1 of the source store "src" is recorded / deleted
	opRefB   = 13
	opUnrefB = 15
	// curated histories only: CreateFamily("x") whose write of the store's OPTIONS file fails (I/O error, nothing
	// written): the call reports the error, no family exists afterwards - but the store has used up a family id
	opCreateFail = 17
)

// tomlFailNext: the next EncodeToml seam call fails without touching the file
var tomlFailNext bool

var errTomlInjected = fmt.Errorf("injected: cannot write OPTIONS")

var opName = []string{"create(a)", "create(b)", "flush1(a)", "flush1(b)", "flush2(a)", "flush2(b)", "flushEmpty(a)", "flushEmpty(b)",
	"flushSeq(a)", "flushSeq(b)", "compact(a)", "compact(b)", "reopen", "ref(b)", "", "unref(b)", "", "createFail(x)"}

var famNames = []string{"a", "b"}

func opFam(op int) int { return op % 2 }

// ---------------------------------------------------------------------------------------------------
// reference model (kept boring)

type famModel struct {
	Exists  bool
	Content map[uint32]string // key -> sorted letters of all values written for it
	Seqs    map[int32]int64
	L0, L1  int // number of files per level (drives the precondition of compact only)
	Marks   int // files carrying a rollup mark (only when the store has rollup targets)
	Refs    int // reference records (source store "src", family 1, file 10) the family holds: 0 or 1
}

type model struct{ F [2]famModel }

func (m *model) clone() *model {
	c := &model{}
	for i := range m.F {
		c.F[i] = famModel{Exists: m.F[i].Exists, L0: m.F[i].L0, L1: m.F[i].L1, Marks: m.F[i].Marks, Refs: m.F[i].Refs, Content: map[uint32]string{}, Seqs: map[int32]int64{}}
		for k, v := range m.F[i].Content {
			c.F[i].Content[k] = v
		}
		for k, v := range m.F[i].Seqs {
			c.F[i].Seqs[k] = v
		}
	}
	return c
}

func sortLetters(s string) string {
	b := []byte(s)
	sort.Slice(b, func(i, j int) bool { return b[i] < b[j] })
	return string(b)
}

func (m *model) enabled(op int) bool {
	f := &m.F[opFam(op)]
	switch op {
	case opCreateA:
		return !f.Exists
	case opCreateB:
		return !f.Exists && m.F[0].Exists // symmetry: b only after a
	case opCompactA, opCompactB:
		return f.Exists && f.L0 >= 2
	case opReopen:
		return m.F[0].Exists
	default:
		return f.Exists
	}
}

// apply the effect of op number idx (letter = 'a'+idx) to the model
func (m *model) apply(op, idx int, rollup bool) {
	f := &m.F[opFam(op)]
	l := string(rune('a' + idx))
	switch op {
	case opCreateA, opCreateB:
		f.Exists = true
	case opFlush1A, opFlush1B:
		f.Content[1] = sortLetters(f.Content[1] + l)
		f.L0++
		if rollup {
			f.Marks++
		}
	case opFlush2A, opFlush2B:
		f.Content[1] = sortLetters(f.Content[1] + l)
		f.Content[70000] = sortLetters(f.Content[70000] + l)
		f.L0++
		if rollup {
			f.Marks++
		}
	case opFlushSeqA, opFlushSeqB:
		f.Content[2] = sortLetters(f.Content[2] + l)
		f.Seqs[1] = int64(100 + idx)
		f.L0++
		if rollup {
			f.Marks++
		}
	case opCompactA, opCompactB:
		f.L0, f.L1 = 0, 1
	case opRefB:
		f.Refs = 1
	case opUnrefB:
		f.Refs = 0
	}
}

func (m *model) canon(withMarks bool) string {
	var b strings.Builder
	for i, f := range m.F {
		if !f.Exists {
			fmt.Fprintf(&b, "%s:- ", famNames[i])
			continue
		}
		fmt.Fprintf(&b, "%s:{", famNames[i])
		for _, k := range []uint32{1, 2, 70000} {
			if v := f.Content[k]; v != "" {
				fmt.Fprintf(&b, "%d=%s ", k, v)
			}
		}
		if s, ok := f.Seqs[1]; ok {
			fmt.Fprintf(&b, "seq=%d ", s)
		}
		if withMarks {
			fmt.Fprintf(&b, "marks=%d", f.Marks)
			if f.Refs == 1 {
				b.WriteString(" refs=[src/1/10]")
			} else if f.Refs > 1 {
				b.WriteString(" refs=[?]")
			}
		}
		b.WriteString("} ")
	}
	return b.String()
}

// ---------------------------------------------------------------------------------------------------
// merger: concatenates the letters of all values, so compaction preserves the letter multiset per key

type catMerger struct{ f kv.Flusher }

func (m *catMerger) Init(map[string]interface{}) {}
func (m *catMerger) Merge(key uint32, values [][]byte) error {
	var all []byte
	for _, v := range values {
		all = append(all, v...)
	}
	return m.f.Add(key, []byte(sortLetters(string(all))))
}

// ---------------------------------------------------------------------------------------------------
// seams

var rec *vcrashfs.Recorder // nil = not recording

type note struct {
	Acked, After *model
	InFlight     string
}

type wWriter struct {
	bufioutil.BufioWriter
	kind, name string
}

func (w *wWriter) Write(p []byte) (int, error) {
	n, err := w.BufioWriter.Write(p)
	rec.At(w.kind + ".Write " + w.name)
	return n, err
}
func (w *wWriter) Sync() error {
	err := w.BufioWriter.Sync()
	rec.At(w.kind + ".Sync " + w.name)
	return err
}
func (w *wWriter) Flush() error {
	err := w.BufioWriter.Flush()
	rec.At(w.kind + ".Flush " + w.name)
	return err
}
func (w *wWriter) Close() error {
	err := w.BufioWriter.Close()
	rec.At(w.kind + ".Close " + w.name)
	return err
}
func (w *wWriter) Reset(fileName string) error {
	err := w.BufioWriter.Reset(fileName)
	rec.At(w.kind + ".Reset " + filepath.Base(fileName))
	return err
}

func installSeams() {
	// every os-level mutation of the rewritten packages is a crash point as well (also calls a later change adds)
	vos.Hook = func(op, path string) { rec.At("os." + op + " " + filepath.Base(path)) }
	ks := kv.VerifGetSeams()
	kv.VerifSetSeams(kv.VerifSeams{
		RemoveDir: func(p string) error { err := ks.RemoveDir(p); rec.At("removeDir " + filepath.Base(p)); return err },
		Remove:    func(p string) error { err := ks.Remove(p); rec.At("remove " + filepath.Base(p)); return err },
		MkDir:     func(p string) error { err := ks.MkDir(p); rec.At("mkdir " + filepath.Base(p)); return err },
		EncodeToml: func(fileName string, v interface{}) error {
			// ltoml.EncodeToml = create <file>.tmp, write, close, rename: it cannot be split from outside, so the
			// two intermediate durable states are synthesised from the state before and the final content.
			if tomlFailNext {
				tomlFailNext = false
				rec.At("encodeToml " + filepath.Base(fileName) + " (fails)")
				return errTomlInjected
			}
			var before *vcrashfs.Image
			if rec != nil {
				before = vcrashfs.Snap(rec.Root, nil)
			}
			err := ks.EncodeToml(fileName, v)
			if rec != nil && err == nil {
				rel, _ := filepath.Rel(rec.Root, fileName)
				final, _ := os.ReadFile(fileName)
				a := before.Clone()
				a.Files[rel+".tmp"] = []byte{}
				rec.AddSynthetic("encodeToml: empty tmp "+rel, a)
				b := before.Clone()
				b.Files[rel+".tmp"] = final
				rec.AddSynthetic("encodeToml: full tmp before rename "+rel, b)
			}
			rec.At("encodeToml " + filepath.Base(fileName))
			return err
		},
	})
	vs := version.VerifGetSeams()
	version.VerifSetSeams(version.VerifSeams{
		WriteFile: func(name string, data []byte, perm os.FileMode) error {
			err := vs.WriteFile(name, data, perm)
			rec.At("writeFile " + filepath.Base(name))
			return err
		},
		Rename: func(o, n string) error {
			err := vs.Rename(o, n)
			rec.At("rename " + filepath.Base(o) + "->" + filepath.Base(n))
			return err
		},
		NewBufferWriter: func(fileName string) (bufioutil.BufioWriter, error) {
			w, err := vs.NewBufferWriter(fileName)
			rec.At("create " + filepath.Base(fileName))
			if err != nil {
				return nil, err
			}
			return &wWriter{BufioWriter: w, kind: "manifest", name: filepath.Base(fileName)}, nil
		},
	})
	ts := table.VerifGetSeams()
	table.VerifSetSeams(table.VerifSeams{
		NewBufioWriter: func(fileName string) (bufioutil.BufioWriter, error) {
			w, err := ts.NewBufioWriter(fileName)
			rec.At("create " + filepath.Base(fileName))
			if err != nil {
				return nil, err
			}
			return &wWriter{BufioWriter: w, kind: "table", name: filepath.Base(fileName)}, nil
		},
	})
}

// ---------------------------------------------------------------------------------------------------
// driving the real store

type cfg struct {
	Rollup bool `json:"rollup"`
	// Wide: flushSeq stores the replica sequence of 1500 leaders instead of one: its version-edit record is about
	// 9 KiB (a small multiple of a page, far below the 256 KiB write buffer of the manifest writer)
	Wide bool `json:"wide_commit,omitempty"`
}

var wide bool // cfg.Wide of the running history

func storeOption(c cfg) kv.StoreOption {
	o := kv.DefaultStoreOption()
	if c.Rollup {
		o.Rollup = []timeutil.Interval{timeutil.Interval(5 * 60 * 1000)}
		o.Source = timeutil.Interval(10 * 1000)
	}
	return o
}

func famOption() kv.FamilyOption { return kv.FamilyOption{Merger: "cat", CompactThreshold: 2} }

func flush(fam kv.Family, kvs map[uint32]string, seq int64) error {
	f := fam.NewFlusher()
	defer f.Release()
	keys := make([]uint32, 0, len(kvs))
	for k := range kvs {
		keys = append(keys, k)
	}
	sort.Slice(keys, func(i, j int) bool { return keys[i] < keys[j] })
	for _, k := range keys {
		if err := f.Add(k, []byte(kvs[k])); err != nil {
			return err
		}
	}
	if seq != 0 {
		f.Sequence(1, seq)
		if wide {
			for leader := int32(2); leader <= 1500; leader++ {
				f.Sequence(leader, seq+int64(leader))
			}
		}
	}
	return f.Commit()
}

// observe reads everything the reference model defines through the public reader API
func observe(st kv.Store, withMarks bool) (string, []string) {
	var problems []string
	var b strings.Builder
	seenNum := map[table.FileNumber]string{}
	for _, name := range famNames {
		fam := st.GetFamily(name)
		if fam == nil {
			fmt.Fprintf(&b, "%s:- ", name)
			continue
		}
		snap := fam.GetSnapshot()
		fmt.Fprintf(&b, "%s:{", name)
		for _, k := range []uint32{1, 2, 70000} {
			var vals []byte
			err := snap.Load(k, func(v []byte) error { vals = append(vals, v...); return nil })
			if err != nil {
				problems = append(problems, fmt.Sprintf("Load(%d) on family %s: %v", k, name, err))
			}
			if len(vals) > 0 {
				fmt.Fprintf(&b, "%d=%s ", k, sortLetters(string(vals)))
			}
		}
		if s, ok := snap.GetCurrent().GetSequences()[1]; ok {
			fmt.Fprintf(&b, "seq=%d ", s)
		}
		if withMarks {
			fmt.Fprintf(&b, "marks=%d", len(kv.VerifFamilyVersion(fam).GetLiveRollupFiles()))
			var refs []string
			for store, fams := range snap.GetCurrent().GetAllReferenceFiles() {
				for fid, files := range fams {
					for _, fn := range files {
						refs = append(refs, fmt.Sprintf("%s/%d/%d", store, fid, fn))
					}
				}
			}
			if len(refs) > 0 {
				sort.Strings(refs)
				fmt.Fprintf(&b, " refs=%v", refs)
			}
		}
		b.WriteString("} ")
		// every table named by the version exists and iterates completely; numbers are unique store-wide
		for _, fm := range snap.GetCurrent().GetAllFiles() {
			if other, dup := seenNum[fm.GetFileNumber()]; dup {
				problems = append(problems, fmt.Sprintf("file number %d referenced by family %s and %s", fm.GetFileNumber(), other, name))
			}
			seenNum[fm.GetFileNumber()] = name
			r, err := snap.GetReader(fm.GetFileNumber())
			if err != nil || r == nil {
				problems = append(problems, fmt.Sprintf("table %s of family %s named by the recovered version cannot be opened: %v", version.Table(fm.GetFileNumber()), name, err))
				continue
			}
			it := r.Iterator()
			n := 0
			for it.HasNext() {
				_ = it.Key()
				_ = it.Value()
				n++
			}
			if n == 0 {
				problems = append(problems, fmt.Sprintf("table %s of family %s iterates no entry", version.Table(fm.GetFileNumber()), name))
			}
		}
		snap.Close()
	}
	return b.String(), problems
}

type history struct {
	Cfg cfg   `json:"cfg"`
	Ops []int `json:"ops"`
}

func (h history) String() string {
	var s []string
	for _, o := range h.Ops {
		s = append(s, opName[o])
	}
	r := ""
	if h.Cfg.Rollup {
		r = "[rollup]"
	}
	if h.Cfg.Wide {
		r += "[flushSeq = 1500 replica sequences]"
	}
	return r + strings.Join(s, ";")
}

var (
	scratch    string
	runNo      int
	seenImages = map[string]bool{}
)

func stack() string {
	buf := make([]byte, 2500)
	return string(buf[:runtime.Stack(buf, false)])
}

// runHistory executes the history on a fresh store while recording, then recovers every distinct image.
func runHistory(rep *vevid.Report, h history) {
	wide = h.Cfg.Wide
	scen := "history-len=" + fmt.Sprint(len(h.Ops))
	if wide {
		scen += " wide-commit"
	}
	viol := func(clause, site, detail string) {
		rep.Violate(vevid.Violation{Clause: clause, Scenario: scen, Site: site, Detail: "history " + h.String() + ": " + detail, Replay: h})
	}
	runNo++
	dir := filepath.Join(scratch, fmt.Sprintf("h%d", runNo))
	_ = os.RemoveAll(dir)
	defer os.RemoveAll(dir)
	acked := &model{}
	acked = acked.clone()
	cur := note{Acked: acked, After: acked, InFlight: "open(new store)"}
	rec = vcrashfs.NewRecorder(dir)
	rec.Note = func() interface{} { return cur }
	defer func() { rec = nil }()
	defer func() {
		if r := recover(); r != nil {
			rec = nil
			viol("panic", "kv", fmt.Sprintf("%v\n%s", r, stack()))
		}
	}()
	st, err := kv.VerifNewStore("s", dir, storeOption(h.Cfg))
	if err != nil {
		vevid.OpFailed("new store: %v", err)
	}
	closeStore := func() {
		if st != nil {
			_ = kv.VerifCloseStore(st)
			st = nil
		}
	}
	defer func() {
		r := rec
		rec = nil
		closeStore()
		rec = r
	}()
	cur = note{Acked: acked, After: acked}
	rec.At("ack")
	for idx, op := range h.Ops {
		after := acked.clone()
		after.apply(op, idx, h.Cfg.Rollup)
		cur = note{Acked: acked, After: after, InFlight: opName[op]}
		l := string(rune('a' + idx))
		var opErr error
		switch op {
		case opCreateA, opCreateB:
			_, opErr = st.CreateFamily(famNames[opFam(op)], famOption())
		case opCreateFail:
			tomlFailNext = true
			_, err := st.CreateFamily("x", famOption())
			if tomlFailNext {
				tomlFailNext = false
				vevid.OpFailed("createFail: CreateFamily did not write the OPTIONS file")
			}
			if err == nil || st.GetFamily("x") != nil {
				viol("failed-create-leaves-family", opName[op], fmt.Sprintf("CreateFamily whose OPTIONS write failed returned %v, GetFamily(x) = %v", err, st.GetFamily("x")))
				return
			}
		case opFlush1A, opFlush1B:
			opErr = flush(st.GetFamily(famNames[opFam(op)]), map[uint32]string{1: l}, 0)
		case opFlush2A, opFlush2B:
			opErr = flush(st.GetFamily(famNames[opFam(op)]), map[uint32]string{1: l, 70000: l}, 0)
		case opFlushEmptyA, opFlushEmptyB:
			opErr = flush(st.GetFamily(famNames[opFam(op)]), nil, 0)
		case opFlushSeqA, opFlushSeqB:
			opErr = flush(st.GetFamily(famNames[opFam(op)]), map[uint32]string{2: l}, int64(100+idx))
		case opCompactA, opCompactB:
			fam := st.GetFamily(famNames[opFam(op)])
			fam.Compact()
			kv.VerifFamilyWait(fam)
		case opRefB, opUnrefB:
			fv := kv.VerifFamilyVersion(st.GetFamily("b"))
			el := version.NewEditLog(fv.GetID())
			if op == opRefB {
				el.Add(version.CreateNewReferenceFile("src", 1, 10))
			} else {
				el.Add(version.CreateDeleteReferenceFile("src", 1, 10))
			}
			opErr = fv.GetVersionSet().CommitFamilyEditLog("b", el)
		case opReopen:
			if err := kv.VerifCloseStore(st); err != nil {
				opErr = err
				break
			}
			st, opErr = kv.VerifNewStore("s", dir, storeOption(h.Cfg))
		}
		if opErr != nil {
			viol("operation-failed", opName[op], opErr.Error())
			return
		}
		acked = after
		cur = note{Acked: acked, After: acked}
		rec.At("ack " + opName[op])
	}
	// live check: what the running store shows equals the model
	rec.Pause()
	got, probs := observe(st, h.Cfg.Rollup)
	if want := acked.canon(h.Cfg.Rollup); got != want {
		viol("live-content", "kv.Snapshot", fmt.Sprintf("running store shows %s, acknowledged content is %s", got, want))
	}
	for _, p := range probs {
		viol("live-files", "kv.Snapshot", p)
	}
	rep.Outcome(got)
	points := rec.Points
	calls := rec.Calls
	rec = nil
	closeStore()
	rep.Count("seam_calls", int64(calls))

	inflightPoints := 0
	for _, p := range points {
		n := p.Note.(note)
		key := p.Image.Hash() + "|" + n.Acked.canon(h.Cfg.Rollup) + "|" + n.After.canon(h.Cfg.Rollup) + fmt.Sprint(h.Cfg.Rollup, h.Cfg.Wide)
		rep.Count("crash_points_total", 1)
		if seenImages[key] {
			continue
		}
		seenImages[key] = true
		rep.Evaluations++
		if n.InFlight != "" {
			inflightPoints++
			rep.DistinctNontrivial++
		}
		recoverImage(rep, h, p, n)
	}
	rep.Count("histories", 1)
	if len(rep.Samples) < 6 && len(h.Ops) >= 3 {
		rep.Sample(map[string]interface{}{"history": h.String(), "seam_calls": calls, "crash_points": len(points), "points_with_op_in_flight": inflightPoints})
	}
}

// recoverImage evaluates one crash image twice: the post-recovery flush runs after a second recovery of the
// recovered state (idempotence), and - on a fresh copy of the image - directly after the first recovery (every
// recovery allocates a file number for its new manifest, so the second one can hide a wrongly restored allocator).
func recoverImage(rep *vevid.Report, h history, p *vcrashfs.Point, n note) {
	recoverImageVariant(rep, h, p, n, true)
	recoverImageVariant(rep, h, p, n, false)
}

func recoverImageVariant(rep *vevid.Report, h history, p *vcrashfs.Point, n note, twice bool) {
	scen := "history-len=" + fmt.Sprint(len(h.Ops))
	where := fmt.Sprintf("history %s, crash after seam call #%d [%s] (in flight: %s): ", h.String(), p.Seq, p.Label, n.InFlight)
	viol := func(clause, site, detail string) {
		rep.Violate(vevid.Violation{Clause: clause, Scenario: scen, Site: site, Detail: where + detail + "\nimage: " + p.Image.Describe(), Replay: h})
	}
	defer func() {
		if r := recover(); r != nil {
			viol("crash-panic", "kv", fmt.Sprintf("%v\n%s", r, stack()))
		}
	}()
	dir := filepath.Join(scratch, "crash")
	_ = os.RemoveAll(dir)
	defer os.RemoveAll(dir)
	if err := p.Image.Materialize(dir); err != nil {
		vevid.Fatal("materialize: %v", err)
	}
	open := func(tag string) kv.Store {
		st, err := kv.VerifNewStore("s", dir, storeOption(h.Cfg))
		if err != nil {
			viol("reopen-failed", "kv.newStore", tag+": "+err.Error())
			return nil
		}
		return st
	}
	st := open("first recovery")
	if st == nil {
		return
	}
	wantA, wantB := n.Acked.canon(h.Cfg.Rollup), n.After.canon(h.Cfg.Rollup)
	got, probs := observe(st, h.Cfg.Rollup)
	got2 := got
	if twice {
		if got != wantA && got != wantB {
			viol("recovered-content", "kv.Snapshot", fmt.Sprintf("recovered store shows %s; acknowledged content is %s, with the in-flight operation applied entirely it is %s", got, wantA, wantB))
		}
		for _, pr := range probs {
			viol("recovered-files", "kv.Snapshot", pr)
		}
		rep.Outcome("rec:" + got)
		// idempotence: recovering the recovered state again changes nothing
		_ = kv.VerifCloseStore(st)
		st = open("second recovery")
		if st == nil {
			return
		}
		var probs2 []string
		got2, probs2 = observe(st, h.Cfg.Rollup)
		if got2 != got {
			viol("recovery-idempotent", "kv.newStore", fmt.Sprintf("first recovery shows %s, recovering again shows %s", got, got2))
		}
		for _, pr := range probs2 {
			viol("recovered-files", "kv.Snapshot", "second recovery: "+pr)
		}
	}
	// a flush after recovery: fresh file number, nothing else changes, survives another reopen
	fam := st.GetFamily("a")
	if fam == nil {
		var err error
		fam, err = st.CreateFamily("a", famOption())
		if err != nil {
			viol("post-recovery-create-failed", "kv.Store.CreateFamily", err.Error())
			_ = kv.VerifCloseStore(st)
			return
		}
	}
	before := map[table.FileNumber]bool{}
	for _, name := range famNames {
		if f := st.GetFamily(name); f != nil {
			s := f.GetSnapshot()
			for _, fm := range s.GetCurrent().GetAllFiles() {
				before[fm.GetFileNumber()] = true
			}
			s.Close()
		}
	}
	if err := flush(fam, map[uint32]string{1: "Z"}, 0); err != nil {
		viol("post-recovery-flush-failed", "kv.Flusher.Commit", err.Error())
		_ = kv.VerifCloseStore(st)
		return
	}
	s := fam.GetSnapshot()
	newFiles := 0
	for _, fm := range s.GetCurrent().GetAllFiles() {
		if !before[fm.GetFileNumber()] {
			newFiles++
		}
	}
	s.Close()
	if newFiles != 1 {
		viol("file-number-reuse", "kv.store.nextFileNumber", fmt.Sprintf("a flush after recovery added %d new file numbers to family a (expected exactly 1: a fresh number)", newFiles))
	}
	got3, probs3 := observe(st, h.Cfg.Rollup)
	for _, pr := range probs3 {
		viol("post-recovery-files", "kv.Snapshot", pr)
	}
	_ = kv.VerifCloseStore(st)
	st = open("reopen after post-recovery flush")
	if st == nil {
		return
	}
	got4, probs4 := observe(st, h.Cfg.Rollup)
	if got4 != got3 {
		viol("post-recovery-durable", "kv.newStore", fmt.Sprintf("after recovery + flush the store shows %s, after one more reopen %s", got3, got4))
	}
	for _, pr := range probs4 {
		viol("post-recovery-files", "kv.Snapshot", "after reopen: "+pr)
	}
	// the flush must have added exactly the letter Z to key 1 of family a (and one rollup mark) and nothing else
	if want3 := expectAfterZ(got2, h.Cfg.Rollup); got3 != want3 {
		viol("post-recovery-content", "kv.Flusher.Commit", fmt.Sprintf("before the post-recovery flush: %s; after: %s; expected: %s", got2, got3, want3))
	}
	_ = kv.VerifCloseStore(st)
}

// expectAfterZ computes the canonical observation after flushing {1:"Z"} into family a from the canonical
// observation before it (the canonical form is produced by observe / model.canon, so it can be parsed back).
func expectAfterZ(before string, withMarks bool) string {
	m := parseCanon(before)
	f := &m.F[0]
	f.Exists = true
	f.Content[1] = sortLetters(f.Content[1] + "Z")
	if withMarks {
		f.Marks++
	}
	return m.canon(withMarks)
}

func parseCanon(c string) *model {
	m := (&model{}).clone()
	for i, name := range famNames {
		j := strings.Index(c, name+":")
		if j < 0 {
			continue
		}
		rest := c[j+len(name)+1:]
		if strings.HasPrefix(rest, "-") {
			continue
		}
		end := strings.Index(rest, "}")
		body := rest[1:end]
		m.F[i].Exists = true
		for _, tok := range strings.Fields(body) {
			kvp := strings.SplitN(tok, "=", 2)
			if len(kvp) != 2 {
				continue
			}
			switch kvp[0] {
			case "seq":
				var v int64
				fmt.Sscan(kvp[1], &v)
				m.F[i].Seqs[1] = v
			case "marks":
				fmt.Sscan(kvp[1], &m.F[i].Marks)
			case "refs":
				if kvp[1] == "[src/1/10]" {
					m.F[i].Refs = 1
				} else {
					m.F[i].Refs = 2 // anything else prints differently from the model anyway
				}
			default:
				var k uint32
				fmt.Sscan(kvp[0], &k)
				m.F[i].Content[k] = kvp[1]
			}
		}
	}
	return m
}

// enumerate all histories of exactly length n that respect the preconditions
func histories(n int, c cfg, f func(h history) bool) {
	venum.Sequences(nOps, n, func(seq []int) bool {
		m := (&model{}).clone()
		for i, op := range seq {
			if !m.enabled(op) {
				return true
			}
			if op == opReopen && i > 0 && seq[i-1] == opReopen {
				return true
			}
			m.apply(op, i, c.Rollup)
		}
		return f(history{Cfg: c, Ops: append([]int(nil), seq...)})
	})
}

var curated = []history{
	{cfg{}, []int{opCreateA, opFlush1A, opFlush2A, opCompactA, opReopen, opFlush1A}},
	{cfg{}, []int{opCreateA, opCreateB, opFlush1A, opFlush1B, opFlush2A, opCompactA, opFlushSeqB, opReopen}},
	{cfg{}, []int{opCreateA, opFlush1A, opReopen, opFlush1A, opReopen, opCompactA, opReopen}},
	{cfg{}, []int{opCreateA, opFlushSeqA, opFlushSeqA, opCompactA, opFlushSeqA, opFlush1A, opCompactA}},
	{cfg{}, []int{opCreateA, opFlushEmptyA, opFlush1A, opFlushEmptyA, opReopen, opFlush2A, opCompactA}},
	{cfg{Rollup: true}, []int{opCreateA, opFlush1A, opFlush2A, opReopen, opFlushSeqA, opCreateB, opFlush1B}},
	{cfg{Rollup: true}, []int{opCreateA, opFlush1A, opFlush1A, opCompactA, opReopen, opFlush1A}},
	{cfg{Rollup: true}, []int{opCreateA, opCreateB, opRefB, opReopen, opReopen, opFlush1B}},
	{cfg{Rollup: true}, []int{opCreateA, opCreateB, opFlush1B, opRefB, opReopen, opUnrefB, opReopen}},
	// a CreateFamily that failed at its OPTIONS write (family ids have a hole afterwards), restarts, families created
	// after them
	{cfg{}, []int{opCreateFail, opCreateA, opFlush1A, opReopen, opCreateB, opFlush1B, opReopen, opFlush2A}},
	{cfg{}, []int{opCreateA, opCreateFail, opFlush1A, opReopen, opCreateB, opFlush2B, opFlush1A, opReopen}},
	// commits whose metadata record is larger than a page (replica sequences of 1500 leaders)
	{cfg{Wide: true}, []int{opCreateA, opFlush1A, opFlushSeqA, opFlush1A, opReopen}},
	{cfg{Wide: true}, []int{opCreateA, opFlushSeqA, opFlush2A, opCompactA, opFlushSeqA, opReopen, opFlush1A}},
}

func main() {
	f := vevid.ParseFlags()
	rep := vevid.New("C01")
	scratch = f.Scratch
	kv.RegisterMerger("cat", func(fl kv.Flusher) (kv.Merger, error) { return &catMerger{f: fl}, nil })
	installSeams()
	if f.Replay != "" {
		var h history
		vevid.LoadReplay(f.Replay, &h)
		for i := 0; i < 5; i++ {
			seenImages = map[string]bool{}
			runHistory(rep, h)
		}
		rep.Write()
		return
	}
	maxLen := 5
	if f.Thorough() {
		maxLen = 6
	}
	rep.Bounds["max_history_length_exhaustive"] = maxLen
	rep.Rule = fmt.Sprintf("all histories of length <=%d over {create(a|b), flush1, flush2(keys 1 and 70000), flushEmpty, flushSeq(+replica sequence), compact (>=2 level-0 files), reopen} respecting preconditions (without rollup targets; lengths <=3 also with rollup targets) + %d curated longer histories; a crash image after EVERY seam call (manifest/table writer Write/Flush/Sync/Close, CURRENT tmp write + rename, OPTIONS tmp write + rename incl. two synthesised intermediate states, mkdir, remove), including the calls of reopen itself; evaluations = distinct (image, acknowledged model, in-flight model) recovered; non-trivial = an operation was in flight", maxLen, len(curated))
	var idx int64
	run := func(h history) bool {
		idx++
		if !f.Mine(idx) {
			return true
		}
		if f.Expired() {
			rep.Cap(fmt.Sprintf("deadline at history #%d", idx))
			return false
		}
		runHistory(rep, h)
		return true
	}
	for _, h := range curated {
		if !run(h) {
			break
		}
	}
	for n := 1; n <= maxLen && rep.Exhaustive; n++ {
		histories(n, cfg{}, run)
		if n <= 3 {
			histories(n, cfg{Rollup: true}, run)
		}
	}
	rep.Extra["sum_histories_enumerated"] = rep.Counters["histories"]
	rep.Write()
}
