// Package qpages wraps the page factories / mapped pages of pkg/queue so that a harness observes every
// store into a page (scheduling point + crash image) and can materialise any recorded image in a fresh
// directory for recovery by the real code. Crash model: process kill - MAP_SHARED pages survive, so the
// durable state at a point is exactly the bytes stored so far.
package qpages

import (
	"crypto/sha1"
	"encoding/hex"
	"fmt"
	"os"
	"path/filepath"
	"sort"
	"strings"

	"github.com/lindb/lindb/pkg/queue/page"
)

// Image is the content of all live page files, keyed by path relative to Root.
type Image map[string][]byte

// Hash returns a content hash of the image.
func (im Image) Hash() string {
	keys := make([]string, 0, len(im))
	for k := range im {
		keys = append(keys, k)
	}
	sort.Strings(keys)
	h := sha1.New()
	for _, k := range keys {
		fmt.Fprintf(h, "%s:%d:", k, len(im[k]))
		h.Write(im[k])
	}
	return hex.EncodeToString(h.Sum(nil))[:16]
}

// Materialize writes the image below dir.
func (im Image) Materialize(dir string) error {
	for rel, b := range im {
		p := filepath.Join(dir, rel)
		if err := os.MkdirAll(filepath.Dir(p), 0o755); err != nil {
			return err
		}
		if err := os.WriteFile(p, b, 0o644); err != nil {
			return err
		}
	}
	return nil
}

// Recorder observes all factories created through Wrap.
type Recorder struct {
	Root   string               // images are keyed relative to this directory
	Before func(op, rel string) // called before every store (e.g. a scheduling point); may be nil
	After  func(op, rel string) // called after every store / page creation / truncation; may be nil
	pages  map[string]*wPage
	Stores int
}

// NewRecorder creates a recorder.
func NewRecorder(root string) *Recorder {
	return &Recorder{Root: root, pages: map[string]*wPage{}}
}

// Image copies the bytes of all live pages.
func (r *Recorder) Image() Image {
	im := Image{}
	for rel, p := range r.pages {
		if p.removed || p.closed {
			if !p.removed {
				// closed but file still exists (factory closed): content is what was last seen
				im[rel] = append([]byte(nil), p.last...)
			}
			continue
		}
		im[rel] = append([]byte(nil), p.MappedPage.ReadBytes(0, p.MappedPage.Size())...)
	}
	return im
}

func (r *Recorder) rel(path string) string {
	rel, err := filepath.Rel(r.Root, path)
	if err != nil || strings.HasPrefix(rel, "..") {
		return path
	}
	return rel
}

// Wrap returns a page-factory constructor whose factories and pages report to the recorder.
func (r *Recorder) Wrap(real func(path string, pageSize int) (page.Factory, error)) func(path string, pageSize int) (page.Factory, error) {
	return func(path string, pageSize int) (page.Factory, error) {
		f, err := real(path, pageSize)
		if err != nil {
			return nil, err
		}
		wf := &wFactory{Factory: f, r: r, path: path, byIdx: map[int64]*wPage{}}
		return wf, nil
	}
}

type wFactory struct {
	page.Factory
	r     *Recorder
	path  string
	byIdx map[int64]*wPage
}

func (f *wFactory) wrap(idx int64, p page.MappedPage) *wPage {
	if w, ok := f.byIdx[idx]; ok && w.MappedPage == p {
		return w
	}
	rel := f.r.rel(p.FilePath())
	w := &wPage{MappedPage: p, r: f.r, rel: rel}
	f.byIdx[idx] = w
	f.r.pages[rel] = w
	return w
}

func (f *wFactory) AcquirePage(index int64) (page.MappedPage, error) {
	_, existed := f.Factory.GetPage(index)
	p, err := f.Factory.AcquirePage(index)
	if err != nil {
		return nil, err
	}
	w := f.wrap(index, p)
	if !existed && f.r.After != nil {
		f.r.After("create", w.rel)
	}
	return w, nil
}

func (f *wFactory) GetPage(index int64) (page.MappedPage, bool) {
	p, ok := f.Factory.GetPage(index)
	if !ok {
		return nil, false
	}
	return f.wrap(index, p), true
}

func (f *wFactory) TruncatePages(index int64) {
	if f.r.Before != nil {
		f.r.Before("truncate", f.r.rel(f.path))
	}
	f.Factory.TruncatePages(index)
	changed := false
	for idx, w := range f.byIdx {
		if _, ok := f.Factory.GetPage(idx); !ok && !w.removed {
			w.removed = true
			changed = true
		}
	}
	if changed && f.r.After != nil {
		f.r.After("truncate", f.r.rel(f.path))
	}
}

func (f *wFactory) Close() error {
	for _, w := range f.byIdx {
		if !w.removed && !w.closed {
			w.last = append([]byte(nil), w.MappedPage.ReadBytes(0, w.MappedPage.Size())...)
			w.closed = true
		}
	}
	return f.Factory.Close()
}

type wPage struct {
	page.MappedPage
	r       *Recorder
	rel     string
	removed bool
	closed  bool // tracked here: MappedPage.Closed() is an instrumented atomic (a scheduling point)
	last    []byte
}

// Close remembers the last content (the file stays on disk) and closes the real page.
func (p *wPage) Close() error {
	if !p.closed && !p.removed {
		p.last = append([]byte(nil), p.MappedPage.ReadBytes(0, p.MappedPage.Size())...)
		p.closed = true
	}
	return p.MappedPage.Close()
}

func (p *wPage) store(op string, do func()) {
	if p.r.Before != nil {
		p.r.Before(op, p.rel)
	}
	do()
	p.r.Stores++
	if p.r.After != nil {
		p.r.After(op, p.rel)
	}
}

func (p *wPage) WriteBytes(data []byte, offset int) {
	p.store("WriteBytes", func() { p.MappedPage.WriteBytes(data, offset) })
}
func (p *wPage) PutUint64(v uint64, offset int) {
	p.store("PutUint64", func() { p.MappedPage.PutUint64(v, offset) })
}
func (p *wPage) PutUint32(v uint32, offset int) {
	p.store("PutUint32", func() { p.MappedPage.PutUint32(v, offset) })
}
func (p *wPage) PutUint8(v uint8, offset int) {
	p.store("PutUint8", func() { p.MappedPage.PutUint8(v, offset) })
}
