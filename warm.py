#!/usr/bin/env python3
"""Builds every harness part once (same command line as ./check) so that the first check is warm."""
import sys, os, tempfile, shutil, importlib.util, importlib.machinery
VERIF = os.path.dirname(os.path.abspath(__file__))
sys.path.insert(0, VERIF)
loader = importlib.machinery.SourceFileLoader("checkmod", os.path.join(VERIF, "check"))
spec = importlib.util.spec_from_loader("checkmod", loader)
chk = importlib.util.module_from_spec(spec)
loader.exec_module(chk)
from checks import CHECKS
from concurrent.futures import ThreadPoolExecutor

def one(item):
    pid, part = item
    scratch = tempfile.mkdtemp(prefix="verif.warm.", dir=chk.scratch_root())
    try:
        chk.build_part(pid, part, scratch)
        return "%s/%s ok" % (pid, part["name"])
    finally:
        shutil.rmtree(scratch, ignore_errors=True)

items = [(pid, p) for pid, c in CHECKS.items() for p in c["parts"]]
with ThreadPoolExecutor(max_workers=4) as ex:
    for r in ex.map(one, items):
        print(r)
