// Package vxstate is an explicit-state breadth-first search whose transitions call the REAL handlers:
// a state is identified by the event history that reaches it; a successor is produced by building a
// fresh real system, replaying the (shortest) history and applying one more event - live objects are
// never cloned. States are deduplicated by a canonical, property-relevant projection supplied by the
// harness (with the soundness argument for that projection given next to it).
package vxstate

import (
	"fmt"
	"time"
)

// System is one instance of the real system under exploration.
type System interface {
	// Enabled returns the events that may happen in the current state (small finite menu, deterministic order).
	Enabled() []string
	// Apply performs one event by calling the real handler(s). An error is a harness-level failure
	// (e.g. an event that cannot be delivered); property violations are reported by Invariant.
	Apply(event string) error
	// Canon returns the canonical form of the current state (property-relevant fields only, sorted).
	Canon() string
	// Invariant checks the property in the current state; prev is the canonical form of the
	// predecessor ("" for the initial state), ev the event just applied. It returns violated clauses.
	Invariant(prevCanon, ev string) []Finding
	// Close releases the instance.
	Close()
}

// Finding is one violated clause.
type Finding struct {
	Clause, Site, Detail string
}

// Violation is a finding together with the event history that produced it.
type Violation struct {
	Finding
	History []string
}

// Search configuration and result.
type Search struct {
	New           func() (System, error) // builds a fresh initial system
	MaxDepth      int                    // 0 = until fixpoint
	MaxStates     int                    // 0 = unlimited
	Deadline      time.Time
	Shard, Shards int // successors of depth-1 states are partitioned over shards (0/1 = none)

	States       int64 // distinct canonical states
	Transitions  int64 // events applied (successor computations)
	MaxDepthSeen int
	Fixpoint     bool // frontier emptied
	Capped       string
	Violations   []Violation
	Replays      int64 // handler calls spent on replaying histories
	DepthCount   []int64
}

// build replays a history on a fresh system.
func (s *Search) build(hist []string) (System, error) {
	sys, err := s.New()
	if err != nil {
		return nil, err
	}
	for _, ev := range hist {
		if err := sys.Apply(ev); err != nil {
			sys.Close()
			return nil, fmt.Errorf("replay of %v failed at %q: %v", hist, ev, err)
		}
		s.Replays++
	}
	return sys, nil
}

// Run performs the BFS. It returns a harness-level error (nondeterministic replay, failing setup) or nil.
func (s *Search) Run() error {
	init, err := s.New()
	if err != nil {
		return err
	}
	c0 := init.Canon()
	for _, f := range init.Invariant("", "") {
		s.Violations = append(s.Violations, Violation{Finding: f})
	}
	init.Close()
	seen := map[string]struct{}{c0: {}}
	s.States = 1
	type node struct {
		hist  []string
		canon string
		prev  string // canonical state of the predecessor (for re-evaluating the invariant on a divergent replay)
	}
	frontier := []node{{nil, c0, ""}}
	depth := 0
	s.DepthCount = []int64{1}
	for len(frontier) > 0 {
		if s.MaxDepth > 0 && depth >= s.MaxDepth {
			s.Capped = fmt.Sprintf("depth cap %d reached with %d frontier states", s.MaxDepth, len(frontier))
			return nil
		}
		var next []node
		for ni, n := range frontier {
			if s.Shards > 1 && depth >= 1 && ni%s.Shards != s.Shard {
				// other shards expand this depth>=1 state; its successors are not added to OUR frontier.
				// (each shard explores the subtree below its share of the depth-1 frontier; states reachable
				// through several shares are explored by each of them - redundancy, not a gap)
				if depth == 1 {
					continue
				}
			}
			if !s.Deadline.IsZero() && time.Now().After(s.Deadline) {
				s.Capped = fmt.Sprintf("deadline at depth %d (%d of %d frontier states expanded)", depth, ni, len(frontier))
				return nil
			}
			sys, err := s.build(n.hist)
			if err != nil {
				return err
			}
			if got := sys.Canon(); got != n.canon {
				// The same history reached two different states: un-owned nondeterminism. If the divergent state
				// violates the invariant, that is a finding about the code (e.g. a result that depends on map
				// iteration order): record it and stop this search; otherwise it is a harness error.
				ev := ""
				if len(n.hist) > 0 {
					ev = n.hist[len(n.hist)-1]
				}
				fs := sys.Invariant(n.prev, ev)
				sys.Close()
				if len(fs) > 0 || len(s.Violations) > 0 {
					// (violations recorded earlier in this search may be the very cause of the divergence)
					for _, f := range fs {
						f.Detail = "(state reached on a second replay of the same history; the first replay reached " + n.canon + ") " + f.Detail
						s.Violations = append(s.Violations, Violation{Finding: f, History: n.hist})
					}
					s.Capped = "nondeterministic replay with an invariant violation: search stopped"
					return nil
				}
				return fmt.Errorf("nondeterministic replay of %v: canonical state differs:\n%s\nvs\n%s", n.hist, n.canon, got)
			}
			evs := sys.Enabled()
			sys.Close()
			for _, ev := range evs {
				sys, err := s.build(n.hist)
				if err != nil {
					return err
				}
				if err := sys.Apply(ev); err != nil {
					sys.Close()
					return fmt.Errorf("apply %q after %v: %v", ev, n.hist, err)
				}
				s.Transitions++
				hist := append(append([]string{}, n.hist...), ev)
				for _, f := range sys.Invariant(n.canon, ev) {
					if len(s.Violations) < 50 {
						s.Violations = append(s.Violations, Violation{Finding: f, History: hist})
					}
				}
				c := sys.Canon()
				sys.Close()
				if _, ok := seen[c]; !ok {
					seen[c] = struct{}{}
					s.States++
					next = append(next, node{hist, c, n.canon})
					if s.MaxStates > 0 && int(s.States) >= s.MaxStates {
						s.Capped = fmt.Sprintf("state cap %d reached at depth %d", s.MaxStates, depth+1)
						return nil
					}
				}
			}
		}
		depth++
		if len(next) > 0 {
			s.MaxDepthSeen = depth
			s.DepthCount = append(s.DepthCount, int64(len(next)))
		}
		frontier = next
	}
	s.Fixpoint = true
	return nil
}
