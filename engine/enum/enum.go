// Package venum holds bounded-exhaustive generators: they enumerate (never draw) finite spaces and
// report their size, so that a check can state exactly what it covered.
package venum

// Subsets calls f with every subset of {0..n-1} as a bit mask (2^n calls); f returns false to stop.
func Subsets(n int, f func(mask uint64) bool) {
	for m := uint64(0); m < 1<<uint(n); m++ {
		if !f(m) {
			return
		}
	}
}

// Sequences calls f with every sequence of length exactly k over {0..alphabet-1} (alphabet^k calls).
// The slice is reused between calls.
func Sequences(alphabet, k int, f func(seq []int) bool) {
	seq := make([]int, k)
	for {
		if !f(seq) {
			return
		}
		i := k - 1
		for i >= 0 {
			seq[i]++
			if seq[i] < alphabet {
				break
			}
			seq[i] = 0
			i--
		}
		if i < 0 {
			return
		}
	}
}

// SequencesUpTo enumerates all sequences of length 0..k.
func SequencesUpTo(alphabet, k int, f func(seq []int) bool) {
	for l := 0; l <= k; l++ {
		stop := false
		Sequences(alphabet, l, func(s []int) bool {
			if !f(s) {
				stop = true
				return false
			}
			return true
		})
		if stop {
			return
		}
	}
}

// Permutations calls f with every permutation of {0..n-1} (Heap's algorithm; slice reused).
func Permutations(n int, f func(p []int) bool) {
	p := make([]int, n)
	for i := range p {
		p[i] = i
	}
	c := make([]int, n)
	if !f(p) {
		return
	}
	i := 0
	for i < n {
		if c[i] < i {
			if i%2 == 0 {
				p[0], p[i] = p[i], p[0]
			} else {
				p[c[i]], p[i] = p[i], p[c[i]]
			}
			if !f(p) {
				return
			}
			c[i]++
			i = 0
		} else {
			c[i] = 0
			i++
		}
	}
}

// Product calls f with every index tuple of the mixed-radix space dims[0] x dims[1] x ... (slice reused).
func Product(dims []int, f func(idx []int) bool) {
	for _, d := range dims {
		if d == 0 {
			return
		}
	}
	idx := make([]int, len(dims))
	for {
		if !f(idx) {
			return
		}
		i := len(dims) - 1
		for i >= 0 {
			idx[i]++
			if idx[i] < dims[i] {
				break
			}
			idx[i] = 0
			i--
		}
		if i < 0 {
			return
		}
	}
}

// Assignments calls f with every function {0..n-1} -> {0..k-1} (k^n calls) - e.g. keys to tables.
func Assignments(n, k int, f func(a []int) bool) { Sequences(k, n, f) }
