// Package vos is a drop-in replacement of "os" for rewritten lindb packages in crash-point harnesses:
// every call that mutates the file system reports to Hook after it took effect, so that ANY file-system
// operation of the rewritten packages is a crash point - also one that a later change of the tree adds
// outside the package-level seams (e.g. a new os.Remove before a rename).
package os

import (
	"io"
	stdos "os"
)

// Hook is called after every mutating call (op = function name, path = its first path argument).
var Hook func(op, path string)

func hook(op, path string) {
	if h := Hook; h != nil {
		h(op, path)
	}
}

type (
	File         = stdos.File
	FileMode     = stdos.FileMode
	FileInfo     = stdos.FileInfo
	DirEntry     = stdos.DirEntry
	PathError    = stdos.PathError
	SyscallError = stdos.SyscallError
)

const (
	O_RDONLY = stdos.O_RDONLY
	O_WRONLY = stdos.O_WRONLY
	O_RDWR   = stdos.O_RDWR
	O_APPEND = stdos.O_APPEND
	O_CREATE = stdos.O_CREATE
	O_EXCL   = stdos.O_EXCL
	O_SYNC   = stdos.O_SYNC
	O_TRUNC  = stdos.O_TRUNC

	ModePerm = stdos.ModePerm
	ModeDir  = stdos.ModeDir
)

var (
	ErrNotExist = stdos.ErrNotExist
	ErrExist    = stdos.ErrExist
	Stdout      = stdos.Stdout
	Stderr      = stdos.Stderr
	Args        = stdos.Args
)

func Open(name string) (*File, error)                 { return stdos.Open(name) }
func Stat(name string) (FileInfo, error)              { return stdos.Stat(name) }
func Lstat(name string) (FileInfo, error)             { return stdos.Lstat(name) }
func ReadFile(name string) ([]byte, error)            { return stdos.ReadFile(name) }
func ReadDir(name string) ([]DirEntry, error)         { return stdos.ReadDir(name) }
func IsNotExist(err error) bool                       { return stdos.IsNotExist(err) }
func IsExist(err error) bool                          { return stdos.IsExist(err) }
func Getenv(k string) string                          { return stdos.Getenv(k) }
func TempDir() string                                 { return stdos.TempDir() }
func Getpid() int                                     { return stdos.Getpid() }
func Exit(code int)                                   { stdos.Exit(code) }
func NewSyscallError(syscall string, err error) error { return stdos.NewSyscallError(syscall, err) }

func OpenFile(name string, flag int, perm FileMode) (*File, error) {
	f, err := stdos.OpenFile(name, flag, perm)
	if flag&(O_CREATE|O_TRUNC) != 0 {
		hook("OpenFile", name)
	}
	return f, err
}

func Create(name string) (*File, error) {
	f, err := stdos.Create(name)
	hook("Create", name)
	return f, err
}

func WriteFile(name string, data []byte, perm FileMode) error {
	err := stdos.WriteFile(name, data, perm)
	hook("WriteFile", name)
	return err
}

func Remove(name string) error {
	err := stdos.Remove(name)
	hook("Remove", name)
	return err
}

func RemoveAll(path string) error {
	err := stdos.RemoveAll(path)
	hook("RemoveAll", path)
	return err
}

func Rename(oldpath, newpath string) error {
	err := stdos.Rename(oldpath, newpath)
	hook("Rename", newpath)
	return err
}

func Mkdir(name string, perm FileMode) error {
	err := stdos.Mkdir(name, perm)
	hook("Mkdir", name)
	return err
}

func MkdirAll(path string, perm FileMode) error {
	err := stdos.MkdirAll(path, perm)
	hook("MkdirAll", path)
	return err
}

func Truncate(name string, size int64) error {
	err := stdos.Truncate(name, size)
	hook("Truncate", name)
	return err
}

func Link(oldname, newname string) error {
	err := stdos.Link(oldname, newname)
	hook("Link", newname)
	return err
}

func Symlink(oldname, newname string) error {
	err := stdos.Symlink(oldname, newname)
	hook("Symlink", newname)
	return err
}

// HookWriter is wrapped around the destination of every bufio.NewWriter / NewWriterSize call of a rewritten
// package (by the source rewriter): when the destination is a file, every write(2) a buffered writer issues is a
// crash point of its own - a record the writer hands to the file in several pieces can be torn between them.
func HookWriter(w io.Writer) io.Writer {
	if f, ok := w.(*File); ok && f != nil {
		return &hookWriter{f: f}
	}
	return w
}

type hookWriter struct{ f *File }

func (h *hookWriter) Write(p []byte) (int, error) {
	n, err := h.f.Write(p)
	hook("File.Write", h.f.Name())
	return n, err
}
