package vsched

import (
	"fmt"
	"os"
	"reflect"
	"runtime"
	"runtime/debug"
	"strconv"
	"strings"
	"time"
)

// Explorer enumerates all schedules of a body within a preemption bound (iterative context bounding).
type Explorer struct {
	Bound    int // max preemptions (<0 = unbounded)
	Horizon  int
	Shard    int           // this worker's index
	Shards   int           // number of workers (0/1 = no sharding); level-2 subtrees are dealt round-robin
	Deadline time.Time     // zero = none; when passed the exploration stops with Capped=true
	MaxExec  int64         // 0 = none
	Body     func()        // run once per execution, must build fresh state
	Check    func(*Result) // oracle for one complete execution
	Discard  func(*Result) // called instead of Check for executions another shard owns (cleanup only)

	Executions int64
	Points     int64 // scheduling decisions taken over all executions (transitions)
	MaxPoints  int
	Capped     bool
	CapReason  string // "deadline" | "executions" | "memory"
	Diverged   string
	lvl2       int64
	rssTick    int64
}

// maxRSS: a worker whose resident set grows beyond this stops exploring (Capped, reason "memory"): executions that
// build real engines leak a little each (goroutines of closed databases, mapped files), a thorough run of 16 workers
// must not exhaust the machine. VERIF_MAX_RSS_MB overrides (0 = no limit).
var maxRSS = func() int64 {
	if v := os.Getenv("VERIF_MAX_RSS_MB"); v != "" {
		n, err := strconv.ParseInt(v, 10, 64)
		if err == nil {
			return n << 20
		}
	}
	return 2000 << 20
}()

func rssBytes() int64 {
	b, err := os.ReadFile("/proc/self/statm")
	if err != nil {
		return 0
	}
	f := strings.Fields(string(b))
	if len(f) < 2 {
		return 0
	}
	n, _ := strconv.ParseInt(f[1], 10, 64)
	return n * int64(os.Getpagesize())
}

func (e *Explorer) preemptionsBefore(r *Result, i int) int {
	n := 0
	for j := 0; j < i; j++ {
		if r.Points[j].SelfEnabled && r.Points[j].Choice != 0 {
			n++
		}
	}
	return n
}

// Determinism replays prefix twice and reports a difference in choices or observation log.
func (e *Explorer) Determinism(prefix []int) error {
	a := Run(prefix, e.Horizon, e.Body)
	b := Run(prefix, e.Horizon, e.Body)
	if !reflect.DeepEqual(a.Points, b.Points) {
		return fmt.Errorf("nondeterministic schedule shape: %d vs %d points", len(a.Points), len(b.Points))
	}
	if !reflect.DeepEqual(a.Log, b.Log) {
		return fmt.Errorf("nondeterministic observation log:\n%v\nvs\n%v", a.Log, b.Log)
	}
	return nil
}

// Explore runs the DFS. Level 0 (root) and level 1 executions are run by every shard but only
// checked by shard 0; level-2 subtrees are dealt round-robin to the shards.
func (e *Explorer) Explore() {
	// dense parts (statement-level points) run the harness' scenarios under their own, smaller preemption bound
	if v := os.Getenv("VERIF_BOUND"); v != "" {
		if n, err := strconv.Atoi(v); err == nil {
			e.Bound = n
		}
	}
	e.explore(nil, 0, nil)
}

func (e *Explorer) mine(level int, idx int64) bool {
	if e.Shards <= 1 {
		return true
	}
	if level < 2 {
		return e.Shard == 0
	}
	return int(idx%int64(e.Shards)) == e.Shard
}

func (e *Explorer) explore(prefix []int, level int, parent *Result) {
	if e.Capped || e.Diverged != "" {
		return
	}
	if !e.Deadline.IsZero() && time.Now().After(e.Deadline) {
		e.Capped, e.CapReason = true, "deadline"
		return
	}
	if e.MaxExec > 0 && e.Executions >= e.MaxExec {
		e.Capped, e.CapReason = true, "executions"
		return
	}
	if e.rssTick++; maxRSS > 0 && e.rssTick%64 == 0 {
		if rss := rssBytes(); rss > maxRSS {
			runtime.GC()
			debug.FreeOSMemory()
			if rss = rssBytes(); rss > maxRSS {
				e.Capped, e.CapReason = true, "memory"
				return
			}
		}
	}
	owned := true
	if level == 2 {
		idx := e.lvl2
		e.lvl2++
		if !e.mine(2, idx) {
			return
		}
	} else if level < 2 {
		owned = e.mine(level, 0)
	}
	x := Run(prefix, e.Horizon, e.Body)
	if x.Diverged != "" {
		e.Diverged = fmt.Sprintf("prefix %v: %s", prefix, x.Diverged)
		if TraceOn && parent != nil {
			a, b := parent.Trace, x.Trace
			for j := 0; j < len(a) && j < len(b); j++ {
				if a[j] != b[j] {
					lo := j - 10
					if lo < 0 {
						lo = 0
					}
					e.Diverged += fmt.Sprintf("\nparent and child traces differ at step %d: parent %s child %s\ncontext: %v\nparent log: %v\nchild log: %v\nparent goes on: %v\nchild goes on: %v", j, a[j], b[j], a[lo:j], parent.Log, x.Log, a[j:min(len(a), j+12)], b[j:min(len(b), j+12)])
					if os.Getenv("VERIF_TRACE") == "full" {
						e.Diverged += fmt.Sprintf("\nPARENT TRACE: %v\nCHILD TRACE: %v", a, b)
					}
					break
				}
			}
		}
		return
	}
	if owned {
		e.Executions++
		e.Points += int64(len(x.Points))
		if len(x.Points) > e.MaxPoints {
			e.MaxPoints = len(x.Points)
		}
		e.Check(x)
	} else if e.Discard != nil {
		e.Discard(x)
	}
	choices := x.Choices()
	pre := e.preemptionsBefore(x, len(prefix))
	for i := len(prefix); i < len(x.Points); i++ {
		p := x.Points[i]
		cost := pre
		if p.SelfEnabled && p.Choice != 0 {
			pre++
		}
		if p.SelfEnabled {
			cost++
		}
		if e.Bound >= 0 && cost > e.Bound {
			continue
		}
		for alt := 1; alt < p.N; alt++ {
			np := make([]int, i+1)
			copy(np, choices[:i])
			np[i] = alt
			nl := level + 1
			if nl > 3 {
				nl = 3
			}
			e.explore(np, nl, x)
		}
	}
}
