package vsched

import "sync"

// Channel operations as scheduling points (the rewriter's -chan option replaces send statements, receive expressions,
// close calls and two-clause selects with a default by these helpers). Outside a controlled execution, or on a
// goroutine that is not the running controlled thread, they are the plain Go operations.
//
// Unbuffered channels are modelled as a rendezvous: a send is enabled while a controlled receiver waits that has not
// been served yet; the value is handed over through the scheduler's own bookkeeping (the real channel is not touched,
// so that nobody blocks in the runtime). Buffered channels use the real buffer: a send is enabled while there is room,
// a receive while there is an element (or the channel is closed).

type chanState struct {
	waiting int   // controlled receivers parked on the channel
	handed  []any // values handed over to waiting receivers, not yet picked up
	closed  bool
}

var (
	chanMu sync.Mutex
	chans  = map[any]*chanState{}
)

func stateOf(ch any) *chanState {
	chanMu.Lock()
	defer chanMu.Unlock()
	st := chans[ch]
	if st == nil {
		st = &chanState{}
		chans[ch] = st
	}
	return st
}

func resetChans() {
	chanMu.Lock()
	chans = map[any]*chanState{}
	chanMu.Unlock()
}

// ChanSend is `ch <- v`.
func ChanSend[T any](ch chan T, v T) {
	if !Controlled() {
		ch <- v
		return
	}
	if cap(ch) > 0 {
		Block("chan.send", func() bool { return len(ch) < cap(ch) })
		ch <- v
		return
	}
	st := stateOf(ch)
	Block("chan.send", func() bool { return st.waiting > len(st.handed) })
	st.handed = append(st.handed, v)
}

// ChanTrySend is `select { case ch <- v: (true) default: (false) }`.
func ChanTrySend[T any](ch chan T, v T) bool {
	if !Controlled() {
		select {
		case ch <- v:
			return true
		default:
			return false
		}
	}
	Point("chan.trysend", nil)
	if cap(ch) > 0 {
		select {
		case ch <- v:
			return true
		default:
			return false
		}
	}
	st := stateOf(ch)
	if st.waiting > len(st.handed) {
		st.handed = append(st.handed, v)
		return true
	}
	return false
}

// ChanRecv is `<-ch` (value form).
func ChanRecv[T any](ch chan T) T {
	v, _ := ChanRecv2(ch)
	return v
}

// ChanRecv2 is `v, ok := <-ch`.
func ChanRecv2[T any](ch chan T) (T, bool) {
	if !Controlled() {
		v, ok := <-ch
		return v, ok
	}
	st := stateOf(ch)
	if cap(ch) > 0 {
		Block("chan.recv", func() bool { return len(ch) > 0 || st.closed })
		if len(ch) > 0 {
			return <-ch, true
		}
		var zero T
		return zero, false
	}
	st.waiting++
	Block("chan.recv", func() bool { return len(st.handed) > 0 || st.closed })
	st.waiting--
	if len(st.handed) > 0 {
		v := st.handed[0].(T)
		st.handed = st.handed[1:]
		return v, true
	}
	var zero T
	return zero, false
}

// ChanTryRecv is `select { case v := <-ch: (v, true) default: (zero, false) }` for buffered channels and closed ones;
// on an unbuffered channel a controlled sender is never parked with a value (sends wait for a receiver), so the
// default branch is taken unless the channel is closed.
func ChanTryRecv[T any](ch chan T) (T, bool, bool) {
	var zero T
	if !Controlled() {
		select {
		case v, ok := <-ch:
			return v, ok, true
		default:
			return zero, false, false
		}
	}
	Point("chan.tryrecv", nil)
	st := stateOf(ch)
	if cap(ch) > 0 && len(ch) > 0 {
		return <-ch, true, true
	}
	if st.closed {
		return zero, false, true
	}
	return zero, false, false
}

// ChanClose is `close(ch)`.
func ChanClose[T any](ch chan T) {
	if !Controlled() {
		close(ch)
		return
	}
	Point("chan.close", nil)
	st := stateOf(ch)
	st.closed = true
	close(ch)
}
