// Package vsched is a cooperative, deterministic scheduler for real goroutines plus a
// preemption-bounded depth-first explorer of all their interleavings (stateless model checking).
//
// Exactly one controlled thread runs at a time. A hooked operation (lock, atomic, cond, wait group,
// harness point) calls Point *before* it takes effect and hands the scheduler an "enabled"
// predicate; the scheduler picks which of the parked threads (each parked in front of its own next
// operation) continues. The sequence of picks is the schedule; the explorer enumerates schedules.
package vsched

import (
	"fmt"
	"os"
	"runtime"
	"strings"
	"sync"
	"time"
)

// Thread is one controlled goroutine.
type Thread struct {
	ID   int
	Name string
	goid int64
	wake chan struct{}
	pred func() bool // enabled predicate of the pending operation (nil = always enabled)
	desc string      // description of the pending operation
	done bool
	yld  bool // pending op is a voluntary yield (spin loop): deprioritised
	held int  // shim locks this thread holds (dense mode: no statement points inside a critical section)
}

// PointRec records one scheduling decision at which more than one thread was enabled.
type PointRec struct {
	N           int  // number of enabled threads
	Choice      int  // index chosen
	SelfEnabled bool // the running thread was still enabled (so Choice!=0 is a preemption)
	Thread      int  // id of the thread chosen
}

// Result of one execution.
type Result struct {
	Points    []PointRec
	Log       []string // observation log written by the harness with Logf
	Deadlock  bool
	Horizon   bool // step horizon exceeded (livelock guard)
	Panics    []string
	Steps     int
	WaitGraph string
	Diverged  string   // non-empty: replay prefix did not fit the execution (hard error)
	Trace     []string // every scheduling call "t<id>:<op>" (only when TraceOn)
}

// TraceOn makes Run record every scheduling call (debugging of nondeterminism).
var TraceOn = os.Getenv("VERIF_TRACE") != ""

// Choices returns the choice vector of an execution.
func (r *Result) Choices() []int {
	c := make([]int, len(r.Points))
	for i, p := range r.Points {
		c[i] = p.Choice
	}
	return c
}

type sched struct {
	mu       sync.Mutex
	threads  []*Thread
	cur      *Thread
	active   bool
	prefix   []int
	pos      int
	res      *Result
	horizon  int
	finished chan struct{}
	aborted  bool
	nextID   int
	quiet    bool
}

// Quiet switches branching off (on) for the running execution: while on, every scheduling point takes the
// default choice (the running thread if still enabled, else the lowest thread id) and is not recorded as a
// choice point. Harness bodies use it for a setup phase that needs lindb's own controlled threads (event
// loops) but whose interleavings are not part of the scenario. Run resets it.
func Quiet(on bool) { s.quiet = on }

var s = &sched{}

// Active reports whether a controlled execution is running. Shims fall back to real primitives otherwise.
func Active() bool { return s.active }

// Strict makes the shims check the calling goroutine: an operation issued by a goroutine that is not the
// running controlled thread (a worker goroutine lindb started itself) falls through to the real primitive
// instead of becoming a scheduling point. Costs a goroutine-id lookup per operation; harnesses that drive
// code with free-running goroutines set it.
var Strict bool

// Controlled reports whether the caller is the running controlled thread of an active execution.
func Controlled() bool {
	if !s.active {
		return false
	}
	if !Strict {
		return true
	}
	c := s.cur
	return c != nil && c.goid == goid()
}

func goid() int64 {
	var buf [64]byte
	n := runtime.Stack(buf[:], false)
	// "goroutine 123 ["
	var id int64
	for _, ch := range buf[10:n] {
		if ch < '0' || ch > '9' {
			break
		}
		id = id*10 + int64(ch-'0')
	}
	return id
}

// Cur returns the id of the running controlled thread (-1 if none).
func Cur() int {
	if !s.active || s.cur == nil {
		return -1
	}
	return s.cur.ID
}

// Logf appends to the observation log of the running execution.
func Logf(format string, a ...interface{}) {
	if s.active && s.res != nil {
		s.res.Log = append(s.res.Log, fmt.Sprintf(format, a...))
	}
}

// Run executes body as thread 0 under the schedule prefix (then default choice 0) and returns when
// every controlled thread has finished, or on deadlock / horizon.
func Run(prefix []int, horizon int, body func()) *Result {
	if s.active {
		panic("vsched: nested Run")
	}
	if horizon <= 0 {
		horizon = 200000
	}
	res := &Result{}
	s.threads = nil
	s.cur = nil
	s.prefix = prefix
	s.pos = 0
	s.res = res
	s.horizon = horizon
	s.finished = make(chan struct{})
	s.aborted = false
	s.quiet = false
	s.nextID = 0
	resetChans()
	s.active = true
	t := s.newThread("main")
	s.cur = t
	go s.threadMain(t, body)
	t.wake <- struct{}{}
	<-s.finished
	s.active = false
	if s.pos < len(prefix) && !res.Deadlock && !res.Horizon {
		res.Diverged = fmt.Sprintf("prefix has %d choices, execution consumed only %d", len(prefix), s.pos)
	}
	return res
}

func (sc *sched) newThread(name string) *Thread {
	t := &Thread{ID: sc.nextID, Name: name, wake: make(chan struct{}, 1)}
	sc.nextID++
	sc.threads = append(sc.threads, t)
	return t
}

func (sc *sched) threadMain(t *Thread, body func()) {
	t.goid = goid()
	<-t.wake
	if sc.aborted {
		select {}
	}
	defer func() {
		if r := recover(); r != nil {
			if _, ok := r.(abortT); ok {
				select {}
			}
			buf := make([]byte, 4096)
			n := runtime.Stack(buf, false)
			sc.res.Panics = append(sc.res.Panics, fmt.Sprintf("thread %d(%s): %v\n%s", t.ID, t.Name, r, shortStack(string(buf[:n]))))
			sc.res.Log = append(sc.res.Log, fmt.Sprintf("PANIC t%d %v", t.ID, r))
		}
		t.done = true
		sc.schedule(t)
	}()
	body()
}

func shortStack(st string) string {
	lines := strings.Split(st, "\n")
	var out []string
	for _, l := range lines {
		if strings.Contains(l, "vsched") || strings.Contains(l, "runtime/") {
			continue
		}
		out = append(out, l)
		if len(out) > 16 {
			break
		}
	}
	return strings.Join(out, "\n")
}

type abortT struct{}

// Go starts f as a new controlled thread (replacement of the go statement in rewritten code).
// Outside a controlled execution it is a plain go statement.
func Go(f func()) { GoNamed("", f) }

// GoNamed is Go with a thread name for reports.
func GoNamed(name string, f func()) {
	if !s.active {
		go f()
		return
	}
	t := s.newThread(name)
	go s.threadMain(t, f)
	// the spawn itself is a scheduling point: the child may run first
	Point("go", nil)
}

// Spawn starts f as a new controlled thread without a scheduling point at the spawn (harness drivers
// use it to start all scenario threads "at once"; the first choice is taken when the spawner blocks or ends).
func Spawn(name string, f func()) {
	if !s.active {
		panic("vsched.Spawn outside a controlled execution")
	}
	t := s.newThread(name)
	go s.threadMain(t, f)
}

// Point is a scheduling point in front of an always-enabled operation.
func Point(desc string, obj interface{}) {
	if !Controlled() {
		return
	}
	s.point(nil, desc, false)
}

// Block is a scheduling point in front of an operation that is enabled only while pred() holds.
// It returns when the scheduler has chosen this thread and pred() is true; the caller then performs
// the operation atomically (no other controlled thread runs until its next point).
func Block(desc string, pred func() bool) {
	if !s.active {
		panic("vsched.Block outside a controlled execution: " + desc)
	}
	s.point(pred, desc, false)
}

// Dense switches the statement-level scheduling points on (harness parts built with the rewriter's -dense
// option; set from the environment variable VERIF_DENSE). See Stmt.
var Dense = os.Getenv("VERIF_DENSE") != ""

// DenseFull (VERIF_DENSE=full): statement points also inside critical sections. A thread parked inside one keeps the
// others that need the same lock blocked, but lets in those that touch the same data WITHOUT the lock (the lock-free
// fast path of a double-checked initialisation, a reader that was never given the lock).
var DenseFull = os.Getenv("VERIF_DENSE") == "full"

// Stmt is the statement-level scheduling point the rewriter's -dense option puts in front of every statement
// of the chosen files. It is a point only while the running thread holds no shim lock: code inside a critical
// section is already ordered against everybody who takes the lock, and code outside one - a check-then-act
// window, a section whose lock was dropped or narrowed, a read of state another thread publishes without a
// lock - becomes interleavable statement by statement instead of running atomically up to the next
// lock/atomic operation.
func Stmt(site string) {
	if !Dense || !s.active || s.quiet {
		return
	}
	c := s.cur
	if c == nil || (c.held > 0 && !DenseFull) {
		return
	}
	if Strict && c.goid != goid() {
		return
	}
	s.point(nil, site, false)
}

// Acquire / Release are called by the lock shims (after a successful acquire / before a release).
func Acquire() {
	if s.active && s.cur != nil {
		s.cur.held++
	}
}

func Release() {
	if s.active && s.cur != nil && s.cur.held > 0 {
		s.cur.held--
	}
}

// Yield is a scheduling point inside a spin / retry loop: the thread is only chosen when no other
// thread is enabled (or explicitly by an explored alternative), making the wait visible.
func Yield(desc string) {
	if !s.active {
		runtime.Gosched()
		return
	}
	s.point(nil, desc, true)
}

func (sc *sched) point(pred func() bool, desc string, yld bool) {
	t := sc.cur
	t.pred, t.desc, t.yld = pred, desc, yld
	sc.schedule(t)
	t.pred, t.desc, t.yld = nil, "", false
}

func (sc *sched) abort() {
	sc.aborted = true
	close(sc.finished)
	select {}
}

// schedule picks the next thread. self is the calling thread (parked at its pending op, or done).
func (sc *sched) schedule(self *Thread) {
	sc.res.Steps++
	if TraceOn {
		d := self.desc
		if self.done {
			d = "exit"
		}
		sc.res.Trace = append(sc.res.Trace, fmt.Sprintf("t%d:%s", self.ID, d))
	}
	if sc.res.Steps > sc.horizon {
		sc.res.Horizon = true
		sc.res.WaitGraph = sc.waitGraph()
		sc.abort()
	}
	// enabled list in canonical order: self first (if enabled and not yielding), then ascending id,
	// yielding threads last.
	var enabled []*Thread
	selfEnabled := false
	if !self.done && !self.yld && (self.pred == nil || self.pred()) {
		enabled = append(enabled, self)
		selfEnabled = true
	}
	var ylds []*Thread
	alive := 0
	for _, t := range sc.threads {
		if t.done {
			continue
		}
		alive++
		if t == self && selfEnabled {
			continue
		}
		if t.pred == nil || t.pred() {
			if t.yld {
				ylds = append(ylds, t)
			} else {
				enabled = append(enabled, t)
			}
		}
	}
	if len(enabled) == 0 {
		enabled = ylds // only spinners left: let them run (horizon catches livelock)
	}
	if len(enabled) == 0 {
		if alive == 0 {
			close(sc.finished)
			return // last thread exits
		}
		if Strict {
			// an uncontrolled goroutine may hold what the controlled threads wait for: give it time to release
			for i := 0; i < 5000 && len(enabled) == 0; i++ {
				time.Sleep(time.Millisecond)
				for _, t := range sc.threads {
					if !t.done && (t.pred == nil || t.pred()) {
						enabled = append(enabled, t)
					}
				}
			}
		}
		if len(enabled) == 0 {
			sc.res.Deadlock = true
			sc.res.WaitGraph = sc.waitGraph()
			sc.abort()
		}
	}
	choice := 0
	if len(enabled) > 1 && !sc.quiet {
		if sc.pos < len(sc.prefix) {
			choice = sc.prefix[sc.pos]
			if choice < 0 || choice >= len(enabled) {
				sc.res.Diverged = fmt.Sprintf("choice %d out of range (%d enabled) at point %d", choice, len(enabled), sc.pos)
				sc.abort()
			}
		}
		sc.pos++
		sc.res.Points = append(sc.res.Points, PointRec{N: len(enabled), Choice: choice, SelfEnabled: selfEnabled, Thread: enabled[choice].ID})
	}
	next := enabled[choice]
	if next == self {
		return
	}
	sc.cur = next
	next.wake <- struct{}{}
	if self.done {
		return
	}
	<-self.wake
	if sc.aborted {
		panic(abortT{})
	}
}

func (sc *sched) waitGraph() string {
	var b strings.Builder
	for _, t := range sc.threads {
		if t.done {
			continue
		}
		fmt.Fprintf(&b, "t%d(%s) waits at [%s]; ", t.ID, t.Name, t.desc)
	}
	return b.String()
}
