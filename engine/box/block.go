package vbox

import (
	"bytes"
	"fmt"
	"sort"

	protoMetricsV1 "github.com/lindb/common/proto/gen/v1/linmetrics"

	"github.com/lindb/lindb/models"
	"github.com/lindb/lindb/series/metric"
)

// Block marshals the points (each its own row) into the flat rows block the broker puts into a WAL
// message before compressing it (what the local replicator decodes with StorageBatchRows.UnmarshalRows).
func Block(pts []Point) ([]byte, error) {
	ml := protoMetricsV1.MetricList{}
	for _, p := range pts {
		m := &protoMetricsV1.Metric{Namespace: p.Namespace, Name: p.Metric, Timestamp: p.Timestamp}
		keys := make([]string, 0, len(p.Tags))
		for k := range p.Tags {
			keys = append(keys, k)
		}
		sort.Strings(keys)
		for _, k := range keys {
			m.Tags = append(m.Tags, &protoMetricsV1.KeyValue{Key: k, Value: p.Tags[k]})
		}
		t, ok := simpleTypes[p.Type]
		if !ok {
			return nil, fmt.Errorf("unknown field type %q", p.Type)
		}
		m.SimpleFields = []*protoMetricsV1.SimpleField{{Name: p.Field, Type: t, Value: p.Value}}
		ml.Metrics = append(ml.Metrics, m)
	}
	var buf bytes.Buffer
	converter := metric.NewProtoConverter(models.NewDefaultLimits())
	if _, err := converter.MarshalProtoMetricListV1To(ml, &buf); err != nil {
		return nil, err
	}
	return buf.Bytes(), nil
}
