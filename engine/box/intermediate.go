package vbox

// Intermediate tier for Cluster: root -> intermediate (broker) nodes -> leaves -> intermediate -> root, with the
// real query.NewIntermediateTaskProcessor / IntermediateMetricContext / flow.BuildPhysicalPlan. Edge fakes:
// the state manager (Choose mirrors coordinator/broker stateManager.Choose: numOfNodes>1 -> BuildPhysicalPlan over
// the live intermediate nodes, else the leaf plan), the task manager of every intermediate node (a map, as the
// real one, minus the worker pool: responses are handed over synchronously in the order the harness chooses),
// the transports (record requests) and the streams.

import (
	"context"
	"fmt"
	"sort"
	"strings"
	"sync"
	"time"

	commonmodels "github.com/lindb/common/models"
	"github.com/lindb/common/pkg/encoding"

	"github.com/lindb/lindb/coordinator/broker"
	"github.com/lindb/lindb/flow"
	"github.com/lindb/lindb/models"
	"github.com/lindb/lindb/pkg/option"
	"github.com/lindb/lindb/pkg/timeutil"
	protoCommonV1 "github.com/lindb/lindb/proto/gen/v1/common"
	"github.com/lindb/lindb/query"
	queryctx "github.com/lindb/lindb/query/context"
	trackerpkg "github.com/lindb/lindb/query/tracker"
)

// tierChooser: what a broker's state manager answers for Choose / GetDatabaseCfg.
type tierChooser struct {
	broker.StateManager // embedded nil interface: only Choose and GetDatabaseCfg are called
	db                  string
	opt                 *option.DatabaseOption
	inters              []models.StatelessNode
	leaves              []Leaf
}

func (c *tierChooser) Choose(database string, numOfNodes int) ([]*models.PhysicalPlan, error) {
	// coordinator/broker stateManager.Choose: compute targets only with more than one storage node
	if numOfNodes > 1 && len(c.leaves) > 1 && len(c.inters) > 0 {
		live := append([]models.StatelessNode(nil), c.inters...)
		return []*models.PhysicalPlan{flow.BuildPhysicalPlan(database, live, numOfNodes)}, nil
	}
	plan := &models.PhysicalPlan{Database: database}
	for _, l := range c.leaves {
		plan.AddTarget(&models.Target{Indicator: l.Node, ShardIDs: l.Shards})
	}
	return []*models.PhysicalPlan{plan}, nil
}

func (c *tierChooser) GetDatabaseCfg(name string) (models.Database, bool) {
	if name != c.db {
		return models.Database{}, false
	}
	return models.Database{Name: c.db, Option: c.opt}, true
}

// nodeTasks is the task manager of one intermediate node.
type nodeTasks struct {
	mu    sync.Mutex
	tasks map[string]queryctx.TaskContext
	added chan struct{}
}

func (m *nodeTasks) AddTask(id string, t queryctx.TaskContext) {
	m.mu.Lock()
	m.tasks[id] = t
	m.mu.Unlock()
}
func (m *nodeTasks) RemoveTask(id string) {
	m.mu.Lock()
	delete(m.tasks, id)
	m.mu.Unlock()
}
func (m *nodeTasks) Receive(*protoCommonV1.TaskResponse, string) error { return nil }
func (m *nodeTasks) get(id string) queryctx.TaskContext {
	m.mu.Lock()
	defer m.mu.Unlock()
	return m.tasks[id]
}

// countingTransport records requests and signals when `want` requests were sent.
type countingTransport struct {
	recordingTransport
	want int
	full chan struct{}
	once sync.Once
}

func (t *countingTransport) SendRequest(target string, req *protoCommonV1.TaskRequest) error {
	_ = t.recordingTransport.SendRequest(target, req)
	t.mu.Lock()
	n := len(t.reqs)
	t.mu.Unlock()
	if n >= t.want {
		t.once.Do(func() { close(t.full) })
	}
	return nil
}

// multiFactory hands out one stream per receiver.
type multiFactory struct {
	serverFactory
	streams map[string]*stream
}

func (f *multiFactory) GetStream(receiver string) protoCommonV1.TaskService_HandleServer {
	if s, ok := f.streams[receiver]; ok {
		return s
	}
	return nil
}

type addressed struct {
	from string
	resp *protoCommonV1.TaskResponse
}

// TierCache keeps the leaves' responses of one (query, layout) so that further delivery orders at the
// intermediate node do not run the leaves again (their answers do not depend on the delivery order).
type TierCache struct {
	key         string
	perReceiver map[string][]addressed
	receivers   []string
}

func cacheReceivers(c *TierCache, fresh []string) []string {
	if c == nil {
		return fresh
	}
	if fresh != nil {
		c.receivers = fresh
	}
	return c.receivers
}

// TierResult is what a query through the intermediate tier produced.
type TierResult struct {
	Result       *commonmodels.ResultSet
	Err          error
	Compute      string   // the intermediate node that ran the query
	ReceiveOnly  []string // intermediate nodes that were only receivers
	DroppedResps int      // leaf responses addressed to a node that has no task for the request
	InterErr     string   // error message of the compute node's response
	// InterStuck: the compute node had every leaf response and still waited (released by cancelling its context,
	// which is what its timeout does in production); InterDelivered = responses handed to it before it was done.
	InterStuck     bool
	InterDelivered int
	// LeafAnswers: what every leaf answered to every receiver (decoded payloads), for the oracle "the split of a
	// leaf's groups over the receivers neither loses nor duplicates a group".
	LeafAnswers []LeafAnswer
	Receivers   []string // receivers in the order of the leaf plan (hash index -> node)
}

// LeafAnswer is one leaf's answer to one receiver.
type LeafAnswer struct {
	Leaf     string
	Receiver string
	Err      string
	Groups   []string // one entry per time series of the payload: tags + digest of its fields
}

func decodeAnswers(perReceiver map[string][]addressed) []LeafAnswer {
	var out []LeafAnswer
	var rcs []string
	for rc := range perReceiver {
		rcs = append(rcs, rc)
	}
	sort.Strings(rcs)
	for _, rc := range rcs {
		for _, a := range perReceiver[rc] {
			la := LeafAnswer{Leaf: a.from, Receiver: rc, Err: a.resp.ErrMsg}
			if len(a.resp.Payload) > 0 {
				var tsl protoCommonV1.TimeSeriesList
				if err := tsl.Unmarshal(a.resp.Payload); err != nil {
					la.Err = "payload does not decode: " + err.Error()
				}
				for _, ts := range tsl.TimeSeriesList {
					var fs []string
					for name, data := range ts.Fields {
						fs = append(fs, fmt.Sprintf("%s=%x", name, data))
					}
					sort.Strings(fs)
					la.Groups = append(la.Groups, fmt.Sprintf("%q{%s}", ts.Tags, strings.Join(fs, ",")))
				}
				sort.Strings(la.Groups)
			}
			out = append(out, la)
		}
	}
	return out
}

var tierSeq int64

// QueryViaIntermediates runs a (group by) query root -> nInter intermediate nodes -> leaves and back.
// leafOrder = order in which the compute intermediate gets the leaves' responses (nil = natural).
// The root gets Complete(nil) first, then the intermediates' responses.
func (c *Cluster) QueryViaIntermediates(q string, tr timeutil.TimeRange, leaves []Leaf, nInter int, leafOrder []int, cache *TierCache) (*TierResult, error) {
	res := &TierResult{}
	ctx, cancel := context.WithTimeout(context.Background(), 120*time.Second)
	defer cancel()
	qs, err := ParseQuery(q, tr)
	if err != nil {
		return nil, fmt.Errorf("parse: %w", err)
	}
	var inters []models.StatelessNode
	for i := 0; i < nInter; i++ {
		inters = append(inters, models.StatelessNode{HostIP: fmt.Sprintf("10.0.1.%d", i+1), GRPCPort: 9000})
	}
	rootNode := models.StatelessNode{HostIP: "10.0.0.100", GRPCPort: 9000}
	tierSeq++
	reqID := fmt.Sprintf("c12-%d-%d", time.Now().UnixNano(), tierSeq)
	req := models.NewRequest(rootNode.Indicator(), c.DBName, q)
	req.RequestID = reqID
	rootTM := &recordingTransport{}
	root := queryctx.NewRootMetricContext(&queryctx.RootMetricContextDeps{
		Ctx: ctx, Request: req, Database: c.DBName, CurrentNode: rootNode, Statement: qs,
		Choose:       &tierChooser{db: c.DBName, opt: c.Opt, inters: inters, leaves: leaves},
		TransportMgr: rootTM,
	})
	tracker, planErr, err := runRootPlan(ctx, root)
	if err != nil {
		return nil, err
	}
	if planErr != nil {
		root.Complete(planErr)
		_, res.Err = root.WaitResponse()
		return res, nil
	}
	if len(rootTM.reqs) == 0 || len(rootTM.reqs) > nInter {
		return nil, fmt.Errorf("root sent %d requests for %d intermediate nodes; was the statement a group by query?", len(rootTM.reqs), nInter)
	}
	// which node computes?
	var plan models.PhysicalPlan
	for _, r := range rootTM.reqs {
		if err := encoding.JSONUnmarshal(r.PhysicalPlan, &plan); err != nil {
			return nil, err
		}
		break
	}
	for _, t := range plan.Targets {
		if t.ReceiveOnly {
			res.ReceiveOnly = append(res.ReceiveOnly, t.Indicator)
		} else if res.Compute == "" {
			res.Compute = t.Indicator
		} else {
			return nil, fmt.Errorf("two compute targets in the root plan")
		}
	}
	if len(plan.Targets) != len(rootTM.reqs) {
		return nil, fmt.Errorf("root plan has %d targets, %d requests were sent", len(plan.Targets), len(rootTM.reqs))
	}
	// only the planned nodes take part
	var planned []models.StatelessNode
	for _, n := range inters {
		if _, ok := rootTM.reqs[n.Indicator()]; ok {
			planned = append(planned, n)
		}
	}
	if len(planned) != len(plan.Targets) {
		return nil, fmt.Errorf("root plan names unknown intermediate nodes")
	}
	inters = planned
	nInter = len(planned)
	computeCtx, computeCancel := context.WithCancel(ctx)
	defer computeCancel()
	// every intermediate node gets its request
	tasks := map[string]*nodeTasks{}
	upStreams := map[string]*stream{}
	leafTM := &countingTransport{want: len(leaves), full: make(chan struct{})}
	type procOut struct {
		node string
		err  error
	}
	procDone := make(chan procOut, nInter)
	for _, n := range inters {
		ind := n.Indicator()
		tasks[ind] = &nodeTasks{tasks: map[string]queryctx.TaskContext{}}
		upStreams[ind] = &stream{ch: make(chan *protoCommonV1.TaskResponse, 4)}
	}
	for _, n := range inters {
		ind := n.Indicator()
		proc := query.NewIntermediateTaskProcessor(n, 60*time.Second,
			&tierChooser{db: c.DBName, opt: c.Opt, inters: inters, leaves: leaves}, tasks[ind], leafTM)
		nctx := ctx
		if ind == res.Compute {
			nctx = computeCtx
		}
		go func(ind string, up *stream, r *protoCommonV1.TaskRequest) {
			tctx := flow.NewTaskContextWithTimeout(nctx, 60*time.Second)
			procDone <- procOut{ind, proc.Process(tctx, up, r)}
		}(ind, upStreams[ind], rootTM.reqs[ind])
	}
	// responses from the intermediates to the root, by node
	interResp := map[string]*protoCommonV1.TaskResponse{}
	finished := 0
	collect := func(po procOut) {
		finished++
		if po.err != nil {
			// query/task_handler.go: a failed Process is answered with an error response
			interResp[po.node] = &protoCommonV1.TaskResponse{RequestID: reqID, Completed: true, ErrMsg: po.err.Error()}
			return
		}
		select {
		case r := <-upStreams[po.node].ch:
			interResp[po.node] = r
		default: // receive-only nodes answer nothing
		}
	}
	// wait until the compute node has sent all leaf requests (or failed early)
	waiting := true
	for waiting {
		select {
		case <-leafTM.full:
			waiting = false
		case po := <-procDone:
			collect(po)
			if po.node == res.Compute {
				waiting = false
			}
		case <-time.After(60 * time.Second):
			return nil, fmt.Errorf("intermediate node did not send its leaf requests within the horizon")
		}
	}
	if _, failed := interResp[res.Compute]; !failed {
		// the compute node's send pipeline completes (Complete(nil) on its task context) right after the last
		// send; it then removes its pipeline from the pipeline manager: wait for that, so that the responses
		// below are always delivered after the completion (deterministic; what production does with slow leaves)
		deadline := time.Now().Add(60 * time.Second)
		for query.GetPipelineManager().GetPipeline(reqID) != nil {
			if time.Now().After(deadline) {
				return nil, fmt.Errorf("intermediate pipeline still registered after the horizon")
			}
			time.Sleep(20 * time.Microsecond)
		}
		// leaves: one response per receiver
		ictx := tasks[res.Compute].get(reqID)
		if ictx == nil {
			return nil, fmt.Errorf("compute node has no task for the request")
		}
		perReceiver := map[string][]addressed{}
		var receivers []string
		cacheKey := fmt.Sprintf("%d/%s", nInter, res.Compute)
		if cache != nil && cache.key == cacheKey {
			perReceiver = cache.perReceiver
		} else {
			for i, l := range leaves {
				r, ok := leafTM.reqs[l.Node]
				if !ok {
					return nil, fmt.Errorf("no request was sent to leaf %s", l.Node)
				}
				var lp models.PhysicalPlan
				if err := encoding.JSONUnmarshal(r.PhysicalPlan, &lp); err != nil {
					return nil, err
				}
				receivers = lp.Receivers
				fct := &multiFactory{streams: map[string]*stream{}}
				for _, rc := range lp.Receivers {
					fct.streams[rc] = &stream{ch: make(chan *protoCommonV1.TaskResponse, 4)}
				}
				node := &models.StatefulNode{StatelessNode: parseNode(l.Node), ID: models.NodeID(i + 1)}
				proc := query.NewLeafTaskProcessor(node, &nodeEngine{Engine: c.Engine, node: l.Node, db: c.DBName}, fct)
				tctx := flow.NewTaskContextWithTimeout(ctx, 60*time.Second)
				// the leaf's "stream" argument is the connection of the requester (the compute node)
				if perr := proc.Process(tctx, fct.streams[res.Compute], r); perr != nil {
					perReceiver[res.Compute] = append(perReceiver[res.Compute], addressed{l.Node,
						&protoCommonV1.TaskResponse{RequestID: r.RequestID, RequestType: r.RequestType, Completed: true, ErrMsg: perr.Error()}})
					continue
				}
				// the first receiver's response tells that the leaf finished; the others were sent before/after it
				// in the same loop of sendResponse, so wait for each with a horizon
				for _, rc := range lp.Receivers {
					select {
					case resp := <-fct.streams[rc].ch:
						perReceiver[rc] = append(perReceiver[rc], addressed{l.Node, resp})
					case <-time.After(30 * time.Second):
						return nil, fmt.Errorf("no response from leaf %d for receiver %s within the horizon", i, rc)
					}
				}
			}
			if cache != nil {
				cache.key, cache.perReceiver = cacheKey, perReceiver
			}
		}
		_ = receivers
		res.LeafAnswers = decodeAnswers(perReceiver)
		res.Receivers = cacheReceivers(cache, receivers)
		// responses addressed to nodes without a task for this request are dropped (taskManager.Receive: "request may be evicted")
		for rc, lst := range perReceiver {
			if rc == res.Compute {
				continue
			}
			if tasks[rc] == nil || tasks[rc].get(reqID) == nil {
				res.DroppedResps += len(lst)
			}
		}
		mine := perReceiver[res.Compute]
		order := leafOrder
		if order == nil {
			for i := range mine {
				order = append(order, i)
			}
		}
		// The compute node's goroutine is blocked in WaitResponse and its send pipeline has completed (waited for
		// above), so nobody touches the context's stage tracker now: swap in our own. tryClose calls
		// stageTracker.Complete() exactly when it closes doneCh, which makes "the context is done" observable
		// without a clock. Once done, the node's goroutine builds its answer: further responses would race with
		// it (as in production), so delivery stops there.
		itracker := trackerpkg.NewStageTracker(flow.NewTaskContextWithTimeout(ctx, 60*time.Second))
		ictx.SetTracker(itracker)
		for _, i := range order {
			if i < len(mine) {
				ictx.HandleResponse(mine[i].resp, mine[i].from)
				res.InterDelivered++
				if itracker.GetStats() != nil {
					break
				}
			}
		}
		if itracker.GetStats() == nil {
			// every response delivered, still waiting: in production until the query timeout. Release it now.
			res.InterStuck = true
			computeCancel()
		}
	}
	// the compute node finishes (answer or error or its own timeout)
	for _, done := interResp[res.Compute]; !done; _, done = interResp[res.Compute] {
		select {
		case po := <-procDone:
			collect(po)
			if po.node == res.Compute && interResp[po.node] == nil {
				return nil, fmt.Errorf("compute node finished without a response")
			}
		case <-time.After(90 * time.Second):
			return nil, fmt.Errorf("compute intermediate node did not finish within the horizon")
		}
	}
	// receive-only nodes return from Process immediately
	for finished < nInter {
		select {
		case po := <-procDone:
			collect(po)
		case <-time.After(60 * time.Second):
			return nil, fmt.Errorf("intermediate node did not return within the horizon")
		}
	}
	res.InterErr = interResp[res.Compute].ErrMsg
	// root: completion first, then whatever the intermediates answered
	root.Complete(nil)
	for _, n := range inters {
		if r, ok := interResp[n.Indicator()]; ok {
			root.HandleResponse(r, n.Indicator())
		}
	}
	if tracker.GetStats() == nil {
		res.Err = ErrRootNotDone
		return res, nil
	}
	out, werr := root.WaitResponse()
	if werr != nil {
		res.Err = werr
		return res, nil
	}
	res.Result, _ = out.(*commonmodels.ResultSet)
	return res, nil
}
