// Package vbox is a "storage node + root in a box": a real tsdb.Engine with real shards, the real leaf
// task processor, and the real root metric context / plan / send stages wired together in one process.
// The only fakes are at the system edge: the transport manager only records task requests, the task
// server factory hands the leaf's responses to the harness, and the node chooser returns the layout the
// harness asks for - so that shard layout, leaf placement and response delivery order are the harness's
// choice and nothing depends on timing.
package vbox

import (
	"bytes"
	"context"
	"fmt"
	"sort"
	"sync"
	"time"

	commonmodels "github.com/lindb/common/models"
	"github.com/lindb/common/pkg/ltoml"
	protoMetricsV1 "github.com/lindb/common/proto/gen/v1/linmetrics"
	"google.golang.org/grpc/metadata"

	"github.com/lindb/lindb/config"
	"github.com/lindb/lindb/coordinator/broker"
	"github.com/lindb/lindb/flow"
	"github.com/lindb/lindb/models"
	"github.com/lindb/lindb/pkg/option"
	"github.com/lindb/lindb/pkg/timeutil"
	protoCommonV1 "github.com/lindb/lindb/proto/gen/v1/common"
	"github.com/lindb/lindb/query"
	queryctx "github.com/lindb/lindb/query/context"
	"github.com/lindb/lindb/query/stage"
	trackerpkg "github.com/lindb/lindb/query/tracker"
	"github.com/lindb/lindb/series/metric"
	"github.com/lindb/lindb/sql"
	"github.com/lindb/lindb/sql/stmt"
	"github.com/lindb/lindb/tsdb"
)

// Box is one engine with one database.
type Box struct {
	Dir      string
	DBName   string
	Engine   tsdb.Engine
	DB       tsdb.Database
	Opt      *option.DatabaseOption
	ShardIDs []models.ShardID
	reqSeq   int
}

// Open creates (or reopens) the engine below dir with one database and the given shards.
// One engine directory per process: the storage config is a process-wide global.
func Open(dir, dbName string, opt *option.DatabaseOption, shardIDs []models.ShardID) (*Box, error) {
	cfg := config.NewDefaultStorageBase()
	cfg.TSDB.Dir = dir
	// background flushing is owned by the harness: make the engine's periodic checker never fire
	cfg.TSDB.MaxMemDBSize = ltoml.Size(1 << 40)
	cfg.TSDB.MutableMemDBTTL = ltoml.Duration(100000 * time.Hour)
	cfg.TSDB.MaxMemUsageBeforeFlush = 1
	config.SetGlobalStorageConfig(cfg)
	engine, err := tsdb.NewEngine()
	if err != nil {
		return nil, err
	}
	if err := engine.CreateShards(dbName, opt, shardIDs...); err != nil {
		engine.Close()
		return nil, err
	}
	db, ok := engine.GetDatabase(dbName)
	if !ok {
		engine.Close()
		return nil, fmt.Errorf("database %s not found after CreateShards", dbName)
	}
	return &Box{Dir: dir, DBName: dbName, Engine: engine, DB: db, Opt: opt, ShardIDs: shardIDs}, nil
}

// Close closes the engine.
func (b *Box) Close() {
	b.Engine.Close()
	// lindb never stops the three worker pools of a database; a harness that opens many engines would leak nine
	// goroutines per database
	// Stop waits until the gauge of live workers reads 0; the gauge is registered under the database's NAME, so a
	// second database object of that name (a reopen that did not stop the pools of the object before it) makes it
	// wait for ever. Every reopen of the box goes through Close for that reason; the wait is bounded all the same
	// (what is left behind is a leak of idle goroutines, nothing the oracles read).
	if b.DB != nil {
		if p := b.DB.ExecutorPool(); p != nil {
			done := make(chan struct{})
			go func() {
				p.Filtering.Stop()
				p.Grouping.Stop()
				p.Scanner.Stop()
				close(done)
			}()
			select {
			case <-done:
			case <-time.After(10 * time.Second):
			}
		}
	}
}

// Point is one written data point of one simple field (several points may share metric, tags, timestamp).
type Point struct {
	Namespace string            `json:"ns,omitempty"`
	Metric    string            `json:"metric"`
	Tags      map[string]string `json:"tags,omitempty"`
	Field     string            `json:"field"`
	Type      string            `json:"type"` // sum | min | max | last | first
	Value     float64           `json:"value"`
	Timestamp int64             `json:"ts"`
}

var simpleTypes = map[string]protoMetricsV1.SimpleFieldType{
	"sum":   protoMetricsV1.SimpleFieldType_DELTA_SUM,
	"min":   protoMetricsV1.SimpleFieldType_Min,
	"max":   protoMetricsV1.SimpleFieldType_Max,
	"last":  protoMetricsV1.SimpleFieldType_LAST,
	"first": protoMetricsV1.SimpleFieldType_FIRST,
}

// Rows converts points (each its own row) through the real proto converter and row decoder.
func Rows(pts []Point) ([]*metric.StorageRow, error) {
	ml := protoMetricsV1.MetricList{}
	for _, p := range pts {
		m := &protoMetricsV1.Metric{Namespace: p.Namespace, Name: p.Metric, Timestamp: p.Timestamp}
		keys := make([]string, 0, len(p.Tags))
		for k := range p.Tags {
			keys = append(keys, k)
		}
		sort.Strings(keys)
		for _, k := range keys {
			m.Tags = append(m.Tags, &protoMetricsV1.KeyValue{Key: k, Value: p.Tags[k]})
		}
		t, ok := simpleTypes[p.Type]
		if !ok {
			return nil, fmt.Errorf("unknown field type %q", p.Type)
		}
		m.SimpleFields = []*protoMetricsV1.SimpleField{{Name: p.Field, Type: t, Value: p.Value}}
		ml.Metrics = append(ml.Metrics, m)
	}
	var buf bytes.Buffer
	converter := metric.NewProtoConverter(models.NewDefaultLimits())
	if _, err := converter.MarshalProtoMetricListV1To(ml, &buf); err != nil {
		return nil, err
	}
	var br metric.StorageBatchRows
	br.UnmarshalRows(buf.Bytes())
	return br.Rows(), nil
}

// Write writes the points into one shard (family chosen by each point's timestamp), one row at a time in order.
func (b *Box) Write(shardID models.ShardID, pts []Point) error {
	shard, ok := b.DB.GetShard(shardID)
	if !ok {
		return fmt.Errorf("shard %d not found", shardID)
	}
	for _, p := range pts {
		rows, err := Rows([]Point{p})
		if err != nil {
			return err
		}
		ft := shard.CurrentInterval().Calculator().CalcFamilyTime(p.Timestamp)
		f, err := shard.GetOrCrateDataFamily(ft)
		if err != nil {
			return err
		}
		if err := f.WriteRows(rows); err != nil {
			return err
		}
	}
	return nil
}

// Families returns the shard's data families overlapping the range.
func (b *Box) Families(shardID models.ShardID, tr timeutil.TimeRange) []tsdb.DataFamily {
	shard, ok := b.DB.GetShard(shardID)
	if !ok {
		return nil
	}
	return shard.GetDataFamilies(shard.CurrentInterval().Type(), tr)
}

// Flush flushes metadata, then the shard's index, then every data family of the shard that has data
// (the order the storage node uses).
func (b *Box) Flush(shardID models.ShardID, tr timeutil.TimeRange) error {
	shard, ok := b.DB.GetShard(shardID)
	if !ok {
		return fmt.Errorf("shard %d not found", shardID)
	}
	if err := b.DB.FlushMeta(); err != nil {
		return err
	}
	if err := shard.FlushIndex(); err != nil {
		return err
	}
	for _, f := range b.Families(shardID, tr) {
		if err := f.Flush(); err != nil {
			return err
		}
	}
	return nil
}

// ---------------------------------------------------------------------------------------------------
// query side

// Leaf is one logical leaf node and the shards it serves.
type Leaf struct {
	Node   string           `json:"node"` // "ip:port"
	Shards []models.ShardID `json:"shards"`
}

// Layout of a query: which leaves exist and in which order their responses are delivered to the root;
// CompleteAt is the position (0..len(responses)) at which the root pipeline's completion is delivered
// (-1 = before everything, i.e. right after the requests were sent = what production does when leaves are slow).
type Layout struct {
	Leaves     []Leaf `json:"leaves"`
	Order      []int  `json:"order"`       // permutation of leaf indexes (response delivery order); nil = natural
	CompleteAt int    `json:"complete_at"` // see above
}

type chooser struct {
	broker.StateManager // embedded nil interface: only GetDatabaseCfg is called
	db                  string
	opt                 *option.DatabaseOption
	plan                *models.PhysicalPlan
}

func (c *chooser) Choose(database string, _ int) ([]*models.PhysicalPlan, error) {
	return []*models.PhysicalPlan{c.plan}, nil
}

func (c *chooser) GetDatabaseCfg(name string) (models.Database, bool) {
	if name != c.db {
		return models.Database{}, false
	}
	return models.Database{Name: c.db, Option: c.opt}, true
}

type recordingTransport struct {
	mu   sync.Mutex
	reqs map[string]*protoCommonV1.TaskRequest
	ord  []string
	// onSend, when set, runs after the request was recorded, still inside SendRequest: a node that answers before the
	// sender goes on to the next target
	onSend func(target string)
}

func (t *recordingTransport) SendRequest(target string, req *protoCommonV1.TaskRequest) error {
	t.mu.Lock()
	if t.reqs == nil {
		t.reqs = map[string]*protoCommonV1.TaskRequest{}
	}
	t.reqs[target] = req
	t.ord = append(t.ord, target)
	h := t.onSend
	t.mu.Unlock()
	if h != nil {
		h(target)
	}
	return nil
}
func (t *recordingTransport) SendResponse(string, *protoCommonV1.TaskResponse) error { return nil }

// stream hands the leaf's responses to the harness
type stream struct {
	ch chan *protoCommonV1.TaskResponse
}

func (s *stream) Send(r *protoCommonV1.TaskResponse) error { s.ch <- r; return nil }
func (s *stream) Recv() (*protoCommonV1.TaskRequest, error) {
	return nil, fmt.Errorf("not supported")
}
func (s *stream) SetHeader(metadata.MD) error  { return nil }
func (s *stream) SendHeader(metadata.MD) error { return nil }
func (s *stream) SetTrailer(metadata.MD)       {}
func (s *stream) Context() context.Context     { return context.Background() }
func (s *stream) SendMsg(interface{}) error    { return nil }
func (s *stream) RecvMsg(interface{}) error    { return nil }

type serverFactory struct{ s *stream }

func (f *serverFactory) GetStream(string) protoCommonV1.TaskService_HandleServer { return f.s }
func (f *serverFactory) Register(string, protoCommonV1.TaskService_HandleServer) int64 {
	return 0
}
func (f *serverFactory) Deregister(int64, string) bool { return true }
func (f *serverFactory) Nodes() []models.Node          { return nil }

// DupWait is how long Query waits for a (forbidden) second response of one leaf request. Harnesses that issue very
// many queries and do not check the one-response-per-request clause may lower it.
var DupWait = time.Millisecond

// QueryTimeout bounds one Query (root context, task contexts, and the wait for a leaf's response).
var QueryTimeout = 60 * time.Second

// QueryResult is what one query produced.
type QueryResult struct {
	Result    *commonmodels.ResultSet
	Err       error
	LeafErrs  []string // error message of each leaf response (by leaf index), "" = ok
	NoReply   []int    // leaves that produced no response within the horizon
	Responses int
}

// ParseQuery parses the statement and pins its time range.
func ParseQuery(q string, tr timeutil.TimeRange) (*stmt.Query, error) {
	st, err := sql.Parse(q)
	if err != nil {
		return nil, err
	}
	qs, ok := st.(*stmt.Query)
	if !ok {
		return nil, fmt.Errorf("not a metric query: %T", st)
	}
	qs.TimeRange = tr
	return qs, nil
}

// Query runs the statement through root plan -> leaves -> root merge with the given layout.
func (b *Box) Query(q string, tr timeutil.TimeRange, lay Layout) *QueryResult {
	res := &QueryResult{}
	qs, err := ParseQuery(q, tr)
	if err != nil {
		res.Err = fmt.Errorf("parse: %w", err)
		return res
	}
	plan := &models.PhysicalPlan{Database: b.DBName}
	for _, l := range lay.Leaves {
		plan.AddTarget(&models.Target{Indicator: l.Node, ShardIDs: l.Shards})
	}
	ch := &chooser{db: b.DBName, opt: b.Opt, plan: plan}
	tm := &recordingTransport{}
	rootNode := models.StatelessNode{HostIP: "10.0.0.100", GRPCPort: 9000}
	ctx, cancel := context.WithTimeout(context.Background(), QueryTimeout)
	defer cancel()
	b.reqSeq++
	req := models.NewRequest(rootNode.Indicator(), b.DBName, q)
	root := queryctx.NewRootMetricContext(&queryctx.RootMetricContextDeps{
		Ctx: ctx, Request: req, Database: b.DBName, CurrentNode: rootNode, Statement: qs, Choose: ch, TransportMgr: tm,
	})
	tracker := trackerpkg.NewStageTracker(flow.NewTaskContextWithTimeout(ctx, QueryTimeout))
	root.SetTracker(tracker)
	var pipeErr error
	pipeDone := false
	pipeline := query.NewExecutePipeline(tracker, func(err error) { pipeErr = err; pipeDone = true })
	pipeline.Execute(stage.NewPhysicalPlanStage(root))
	if !pipeDone {
		res.Err = fmt.Errorf("root pipeline did not complete synchronously")
		return res
	}
	if pipeErr != nil {
		root.Complete(pipeErr)
		_, res.Err = root.WaitResponse()
		return res
	}
	// run every recorded request through the real leaf processor of its node and collect the responses
	resps := make([]*protoCommonV1.TaskResponse, len(lay.Leaves))
	res.LeafErrs = make([]string, len(lay.Leaves))
	for i, l := range lay.Leaves {
		r, ok := tm.reqs[l.Node]
		if !ok {
			res.Err = fmt.Errorf("no request was sent to leaf %s", l.Node)
			return res
		}
		st := &stream{ch: make(chan *protoCommonV1.TaskResponse, 4)}
		node := &models.StatefulNode{StatelessNode: parseNode(l.Node), ID: models.NodeID(i + 1)}
		proc := query.NewLeafTaskProcessor(node, b.Engine, &serverFactory{s: st})
		tctx := flow.NewTaskContextWithTimeout(ctx, QueryTimeout)
		if err := proc.Process(tctx, st, r); err != nil {
			// the task server answers a failed Process with an error response (app/*/rpc task handler)
			resps[i] = &protoCommonV1.TaskResponse{RequestID: r.RequestID, RequestType: r.RequestType, Completed: true, ErrMsg: err.Error()}
			res.LeafErrs[i] = err.Error()
			continue
		}
		select {
		case resp := <-st.ch:
			resps[i] = resp
			res.LeafErrs[i] = resp.ErrMsg
		case <-time.After(leafWait()):
			res.NoReply = append(res.NoReply, i)
		}
		// a second response for one request would be a violation of "one response per request"
		select {
		case <-st.ch:
			res.Responses++
		case <-time.After(DupWait):
		}
		res.Responses++
	}
	if len(res.NoReply) > 0 {
		res.Err = fmt.Errorf("no response from leaves %v", res.NoReply)
		return res
	}
	order := lay.Order
	if order == nil {
		for i := range lay.Leaves {
			order = append(order, i)
		}
	}
	completeAt := lay.CompleteAt
	for pos, li := range order {
		if completeAt == pos || (completeAt < 0 && pos == 0) {
			root.Complete(nil)
		}
		root.HandleResponse(resps[li], lay.Leaves[li].Node)
	}
	if completeAt >= len(order) {
		root.Complete(nil)
	}
	out, err := root.WaitResponse()
	if err != nil {
		res.Err = err
		return res
	}
	res.Result, _ = out.(*commonmodels.ResultSet)
	return res
}

func leafWait() time.Duration {
	if QueryTimeout < 30*time.Second {
		return QueryTimeout
	}
	return 30 * time.Second
}

func parseNode(ind string) models.StatelessNode {
	var ip string
	var port uint16
	for i := len(ind) - 1; i >= 0; i-- {
		if ind[i] == ':' {
			ip = ind[:i]
			fmt.Sscan(ind[i+1:], &port)
			break
		}
	}
	return models.StatelessNode{HostIP: ip, GRPCPort: port}
}

// Canon renders a result set as sorted "tags|field|ts=value" lines (order-insensitive comparison).
func Canon(rs *commonmodels.ResultSet) []string {
	if rs == nil {
		return nil
	}
	var out []string
	for _, s := range rs.Series {
		var tags []string
		for k, v := range s.Tags {
			tags = append(tags, k+"="+v)
		}
		sort.Strings(tags)
		for fname, pts := range s.Fields {
			var tss []int64
			for ts := range pts {
				tss = append(tss, ts)
			}
			sort.Slice(tss, func(i, j int) bool { return tss[i] < tss[j] })
			for _, ts := range tss {
				out = append(out, fmt.Sprintf("%v|%s|%d=%v", tags, fname, ts, pts[ts]))
			}
		}
	}
	sort.Strings(out)
	return out
}
