package vbox

// Extensions used by the C11 harness (query vs. naive model): rows that carry several simple fields, compaction of
// one data family's kv family (Family.Compact + wait for the background job), and an in-process engine reopen.

import (
	"bytes"
	"fmt"
	"sort"

	protoMetricsV1 "github.com/lindb/common/proto/gen/v1/linmetrics"

	"github.com/lindb/lindb/kv"
	"github.com/lindb/lindb/models"
	"github.com/lindb/lindb/series/metric"
)

// FieldValue is one simple field of a row.
type FieldValue struct {
	Name  string  `json:"name"`
	Type  string  `json:"type"` // sum | min | max | last | first
	Value float64 `json:"value"`
}

// MultiPoint is one written row with several simple fields.
type MultiPoint struct {
	Namespace string            `json:"ns,omitempty"`
	Metric    string            `json:"metric"`
	Tags      map[string]string `json:"tags,omitempty"`
	Fields    []FieldValue      `json:"fields"`
	Timestamp int64             `json:"ts"`
}

// RowsMulti converts one multi-field point through the real proto converter and row decoder.
func RowsMulti(p MultiPoint) ([]*metric.StorageRow, error) {
	m := &protoMetricsV1.Metric{Namespace: p.Namespace, Name: p.Metric, Timestamp: p.Timestamp}
	keys := make([]string, 0, len(p.Tags))
	for k := range p.Tags {
		keys = append(keys, k)
	}
	sort.Strings(keys)
	for _, k := range keys {
		m.Tags = append(m.Tags, &protoMetricsV1.KeyValue{Key: k, Value: p.Tags[k]})
	}
	for _, f := range p.Fields {
		t, ok := simpleTypes[f.Type]
		if !ok {
			return nil, fmt.Errorf("unknown field type %q", f.Type)
		}
		m.SimpleFields = append(m.SimpleFields, &protoMetricsV1.SimpleField{Name: f.Name, Type: t, Value: f.Value})
	}
	ml := protoMetricsV1.MetricList{Metrics: []*protoMetricsV1.Metric{m}}
	var buf bytes.Buffer
	converter := metric.NewProtoConverter(models.NewDefaultLimits())
	if _, err := converter.MarshalProtoMetricListV1To(ml, &buf); err != nil {
		return nil, err
	}
	var br metric.StorageBatchRows
	br.UnmarshalRows(buf.Bytes())
	return br.Rows(), nil
}

// WriteMulti writes one multi-field row into the shard's family of its timestamp.
func (b *Box) WriteMulti(shardID models.ShardID, p MultiPoint) error {
	shard, ok := b.DB.GetShard(shardID)
	if !ok {
		return fmt.Errorf("shard %d not found", shardID)
	}
	rows, err := RowsMulti(p)
	if err != nil {
		return err
	}
	if len(rows) != 1 {
		return fmt.Errorf("row conversion produced %d rows for one point", len(rows))
	}
	ft := shard.CurrentInterval().Calculator().CalcFamilyTime(p.Timestamp)
	f, err := shard.GetOrCrateDataFamily(ft)
	if err != nil {
		return err
	}
	return f.WriteRows(rows)
}

// FlushFamily flushes metadata, the shard's index and then the one data family containing ts
// (the order the storage node uses); families that do not exist are skipped.
func (b *Box) FlushFamily(shardID models.ShardID, ts int64) error {
	shard, ok := b.DB.GetShard(shardID)
	if !ok {
		return fmt.Errorf("shard %d not found", shardID)
	}
	if err := b.DB.FlushMeta(); err != nil {
		return err
	}
	if err := shard.FlushIndex(); err != nil {
		return err
	}
	ft := shard.CurrentInterval().Calculator().CalcFamilyTime(ts)
	f, err := shard.GetOrCrateDataFamily(ft)
	if err != nil {
		return err
	}
	return f.Flush()
}

// Level0Files returns the number of level-0 and level-1 files of the kv family below the data family containing ts.
func (b *Box) FamilyFiles(shardID models.ShardID, ts int64) (l0, l1 int, err error) {
	shard, ok := b.DB.GetShard(shardID)
	if !ok {
		return 0, 0, fmt.Errorf("shard %d not found", shardID)
	}
	ft := shard.CurrentInterval().Calculator().CalcFamilyTime(ts)
	f, err := shard.GetOrCrateDataFamily(ft)
	if err != nil {
		return 0, 0, err
	}
	snap := f.Family().GetSnapshot()
	defer snap.Close()
	return snap.GetCurrent().NumberOfFilesInLevel(0), snap.GetCurrent().NumberOfFilesInLevel(1), nil
}

// CompactFamily runs kv Family.Compact() (what DataFamily.Compact does once a family is idle for two hours) on the
// data family containing ts and waits for the background job. It reports the level-0 file counts before and after.
func (b *Box) CompactFamily(shardID models.ShardID, ts int64) (before, after int, err error) {
	shard, ok := b.DB.GetShard(shardID)
	if !ok {
		return 0, 0, fmt.Errorf("shard %d not found", shardID)
	}
	ft := shard.CurrentInterval().Calculator().CalcFamilyTime(ts)
	f, err := shard.GetOrCrateDataFamily(ft)
	if err != nil {
		return 0, 0, err
	}
	kvf := f.Family()
	count := func() int {
		snap := kvf.GetSnapshot()
		defer snap.Close()
		return snap.GetCurrent().NumberOfFilesInLevel(0)
	}
	before = count()
	after = before
	// Family.Compact is skipped silently while an earlier job still holds the "compacting" flag (it is cleared after
	// the wait group is released): retry until the job has really run.
	for try := 0; try < 1000 && after > 1; try++ {
		kv.VerifFamilyWait(kvf)
		kvf.Compact()
		kv.VerifFamilyWait(kvf)
		after = count()
	}
	return before, after, nil
}

// ReopenEngine closes the engine (graceful shutdown: every memory database is flushed by Close) and opens it
// again on the same directory with the same database and shards.
func (b *Box) ReopenEngine() error {
	b.Close() // also stops the worker pools of this database object (see Close)
	nb, err := Open(b.Dir, b.DBName, b.Opt, b.ShardIDs)
	if err != nil {
		return err
	}
	b.Engine, b.DB = nb.Engine, nb.DB
	return nil
}
