package vbox

// Rollup side of the box: trigger the kv rollup job of source stores the way the storage node's job scheduler does
// (Store.ForceRollup = family.rollup() for every family of the store), wait for the background goroutines, list the
// kv families below an interval's segment directory and decode every metric block of a family file by file through the
// real reader path (metricsdata.NewReader + MetricReader.Load + DataLoader.Load + TSD decoder).

import (
	"fmt"
	"math"
	"os"
	"sort"

	"github.com/lindb/roaring"

	"github.com/lindb/lindb/aggregation"
	"github.com/lindb/lindb/flow"
	"github.com/lindb/lindb/kv"
	"github.com/lindb/lindb/kv/table"
	"github.com/lindb/lindb/models"
	"github.com/lindb/lindb/pkg/encoding"
	"github.com/lindb/lindb/pkg/timeutil"
	"github.com/lindb/lindb/series/field"
	"github.com/lindb/lindb/tsdb"
	"github.com/lindb/lindb/tsdb/tblstore/metricsdata"
)

// Reopen closes the engine (a graceful shutdown: pending memory databases are flushed by Close) and opens it again
// on the same directory with the same database / shards.
func (b *Box) Reopen() error {
	b.Close() // also stops the worker pools of this database object (see Close)
	nb, err := Open(b.Dir, b.DBName, b.Opt, b.ShardIDs)
	if err != nil {
		return err
	}
	b.Engine, b.DB = nb.Engine, nb.DB
	return nil
}

// KVFamily is one kv family of a segment store.
type KVFamily struct {
	Segment string // segment (= store) name, e.g. 20190702 / 201907 / 2019
	Family  string // family name inside the store
	Store   kv.Store
	F       kv.Family
}

// SegmentStore returns the open kv store of one segment of an interval.
func (b *Box) SegmentStore(shardID models.ShardID, interval timeutil.Interval, segment string) (kv.Store, bool) {
	return kv.GetStoreManager().GetStoreByName(tsdb.ShardSegmentPath(b.DBName, shardID, interval, segment))
}

// KVFamilies lists every kv family below the segment directory of the interval (all segments found on disk are
// loaded through the shard first, as a query over all time would do).
func (b *Box) KVFamilies(shardID models.ShardID, interval timeutil.Interval) ([]KVFamily, error) {
	shard, ok := b.DB.GetShard(shardID)
	if !ok {
		return nil, fmt.Errorf("shard %d not found", shardID)
	}
	dir := tsdb.ShardIntervalSegmentPath(b.DBName, shardID, interval)
	ents, err := os.ReadDir(dir)
	if err != nil {
		if os.IsNotExist(err) {
			return nil, nil
		}
		return nil, err
	}
	// load the segments (stores are opened lazily)
	_ = shard.GetDataFamilies(interval.Type(), timeutil.TimeRange{Start: 0, End: math.MaxInt64 / 4})
	var out []KVFamily
	for _, e := range ents {
		if !e.IsDir() {
			continue
		}
		st, ok := b.SegmentStore(shardID, interval, e.Name())
		if !ok {
			return nil, fmt.Errorf("segment %s/%s exists on disk but its store is not loaded", interval.Type(), e.Name())
		}
		names := st.ListFamilyNames()
		sort.Strings(names)
		for _, n := range names {
			f := st.GetFamily(n)
			if f == nil {
				return nil, fmt.Errorf("family %s of store %s not found", n, e.Name())
			}
			out = append(out, KVFamily{Segment: e.Name(), Family: n, Store: st, F: f})
		}
	}
	return out, nil
}

// Rollup loads the source family of every given family time (which also loads the rollup target segments, as a write
// into that family does), calls ForceRollup on each distinct source store and waits (kv.VerifFamilyWait, then the
// optional idle callback) until the jobs of every family of these stores finished.
func (b *Box) Rollup(shardID models.ShardID, familyTimes []int64, idle func(kv.Family) error) error {
	shard, ok := b.DB.GetShard(shardID)
	if !ok {
		return fmt.Errorf("shard %d not found", shardID)
	}
	src := shard.CurrentInterval()
	seen := map[string]kv.Store{}
	var order []string
	for _, ft := range familyTimes {
		if _, err := shard.GetOrCrateDataFamily(ft); err != nil {
			return err
		}
		seg := src.Calculator().GetSegment(ft)
		st, ok := b.SegmentStore(shardID, src, seg)
		if !ok {
			return fmt.Errorf("source store %s not loaded", seg)
		}
		if _, dup := seen[seg]; !dup {
			seen[seg] = st
			order = append(order, seg)
		}
	}
	for _, seg := range order {
		st := seen[seg]
		st.ForceRollup()
		for _, n := range st.ListFamilyNames() {
			if f := st.GetFamily(n); f != nil {
				kv.VerifFamilyWait(f)
				if idle != nil {
					if err := idle(f); err != nil {
						return err
					}
				}
			}
		}
	}
	return nil
}

// Cell is one decoded value.
type Cell struct {
	Metric uint32
	Series uint32
	Field  field.ID
	Slot   uint16
}

// FileContent is what one table file of a family holds.
type FileContent struct {
	File   table.FileNumber
	Level  int
	Cells  map[Cell]float64
	FTypes map[[2]uint32]field.Type      // (metric, field id) -> field type of the block
	Ranges map[uint32]timeutil.SlotRange // metric -> slot range of the block
}

// DecodeFamily decodes every file of the family's current version.
func DecodeFamily(f kv.Family) ([]FileContent, error) {
	snap := f.GetSnapshot()
	defer snap.Close()
	v := snap.GetCurrent()
	var out []FileContent
	for level := 0; level < 8; level++ {
		var files []table.FileNumber
		for _, fm := range v.GetFiles(level) { // nil for levels above the configured number
			files = append(files, fm.GetFileNumber())
		}
		sort.Slice(files, func(i, j int) bool { return files[i] < files[j] })
		for _, fn := range files {
			r, err := snap.GetReader(fn)
			if err != nil {
				return nil, fmt.Errorf("file %d of the current version: %w", fn, err)
			}
			fc := FileContent{File: fn, Level: level, Cells: map[Cell]float64{}, FTypes: map[[2]uint32]field.Type{}, Ranges: map[uint32]timeutil.SlotRange{}}
			it := r.Iterator()
			for it.HasNext() {
				if err := decodeBlock(it.Key(), it.Value(), &fc); err != nil {
					return nil, fmt.Errorf("file %d metric %d: %w", fn, it.Key(), err)
				}
			}
			out = append(out, fc)
		}
	}
	return out, nil
}

func decodeBlock(metric uint32, block []byte, fc *FileContent) error {
	r, err := metricsdata.NewReader("vbox", block)
	if err != nil {
		return fmt.Errorf("metricsdata.NewReader: %w", err)
	}
	fields := r.GetFields()
	for _, f := range fields {
		fc.FTypes[[2]uint32{metric, uint32(f.ID)}] = f.Type
	}
	fc.Ranges[metric] = r.GetTimeRange()
	ids := r.GetSeriesIDs()
	dup := ""
	for i, hk := range ids.GetHighKeys() {
		var container roaring.Container = ids.GetContainerAtIndex(i)
		ctx := &flow.DataLoadContext{
			ShardExecuteCtx:       &flow.ShardExecuteContext{StorageExecuteCtx: &flow.StorageExecuteContext{Fields: fields}},
			SeriesIDHighKey:       hk,
			LowSeriesIDsContainer: container,
			IsMultiField:          len(fields) > 1,
			Decoder:               encoding.GetTSDDecoder(),
		}
		ctx.Grouping()
		hk := hk
		ctx.DownSampling = func(slotRange timeutil.SlotRange, seriesIdx uint16, fieldIdx int, getter encoding.TSDValueGetter) {
			sid := uint32(hk)<<16 | uint32(ctx.LowSeriesIDs[seriesIdx])
			aggregation.DownSampling(slotRange, timeutil.SlotRange{Start: 0, End: math.MaxUint16}, 1, 0, getter,
				func(slot int, v float64) {
					ck := Cell{metric, sid, fields[fieldIdx].ID, uint16(slot)}
					if _, ok := fc.Cells[ck]; ok {
						dup = fmt.Sprint(ck)
					}
					fc.Cells[ck] = v
				})
		}
		if loader := r.Load(ctx); loader != nil {
			loader.Load(ctx)
		}
		encoding.ReleaseTSDDecoder(ctx.Decoder)
	}
	if dup != "" {
		return fmt.Errorf("cell %s emitted twice from one block", dup)
	}
	return nil
}
