package vbox

// Cluster: several logical storage nodes on ONE real tsdb.Engine (one engine per process). Every node has
// its own real database (own metric/field/tag metadata, own shards), exactly like a storage node of a
// cluster owns its own copy of a database; the only fake is the name mapping done by nodeEngine
// (node X asks for database "db" and gets the real database "<X>__db").
//
// The query side is split into the two halves a root sees in production:
//   - LeafResponses: root plan -> recorded task requests -> real leaf task processor of every node ->
//     the TaskResponse of every leaf (independent of delivery order);
//   - Deliver: a fresh real root metric context + plan + send stages, then the given responses are
//     handed to HandleResponse in the given order with the root pipeline's Complete(nil) at the given position.
//
// Additive to box.go: nothing of box.go is changed.

import (
	"context"
	"fmt"
	"strings"
	"time"

	commonmodels "github.com/lindb/common/models"
	"github.com/lindb/common/pkg/ltoml"
	protoMetricsV1 "github.com/lindb/common/proto/gen/v1/linmetrics"

	"github.com/lindb/lindb/config"
	"github.com/lindb/lindb/flow"
	"github.com/lindb/lindb/models"
	"github.com/lindb/lindb/pkg/option"
	"github.com/lindb/lindb/pkg/timeutil"
	protoCommonV1 "github.com/lindb/lindb/proto/gen/v1/common"
	"github.com/lindb/lindb/query"
	queryctx "github.com/lindb/lindb/query/context"
	"github.com/lindb/lindb/query/stage"
	trackerpkg "github.com/lindb/lindb/query/tracker"
	"github.com/lindb/lindb/series/metric"
	"github.com/lindb/lindb/sql/stmt"
	"github.com/lindb/lindb/tsdb"
)

// Cluster is one engine holding one logical database on several logical nodes.
type Cluster struct {
	Dir    string
	DBName string // logical database name (what plans and requests carry)
	Opt    *option.DatabaseOption
	Engine tsdb.Engine
	Nodes  map[string]*Box // node indicator -> box over the node's own real database (shares Engine)
}

func nodeDBName(node, db string) string {
	r := strings.NewReplacer(":", "_", ".", "_")
	return "n" + r.Replace(node) + "__" + db
}

// OpenCluster creates the engine below dir and, for every node, the node's own database with the given shards.
func OpenCluster(dir, dbName string, opt *option.DatabaseOption, nodes []string, shardIDs []models.ShardID) (*Cluster, error) {
	cfg := config.NewDefaultStorageBase()
	cfg.TSDB.Dir = dir
	cfg.TSDB.MaxMemDBSize = ltoml.Size(1 << 40)
	cfg.TSDB.MutableMemDBTTL = ltoml.Duration(100000 * time.Hour)
	cfg.TSDB.MaxMemUsageBeforeFlush = 1
	config.SetGlobalStorageConfig(cfg)
	engine, err := tsdb.NewEngine()
	if err != nil {
		return nil, err
	}
	c := &Cluster{Dir: dir, DBName: dbName, Opt: opt, Engine: engine, Nodes: map[string]*Box{}}
	for _, n := range nodes {
		real := nodeDBName(n, dbName)
		if err := engine.CreateShards(real, opt, shardIDs...); err != nil {
			engine.Close()
			return nil, err
		}
		db, ok := engine.GetDatabase(real)
		if !ok {
			engine.Close()
			return nil, fmt.Errorf("database %s not found after CreateShards", real)
		}
		c.Nodes[n] = &Box{Dir: dir, DBName: real, Engine: engine, DB: db, Opt: opt, ShardIDs: shardIDs}
	}
	return c, nil
}

// Close closes the engine.
func (c *Cluster) Close() { c.Engine.Close() }

// nodeEngine is the engine as seen by one node: the logical database name maps to the node's own database.
type nodeEngine struct {
	tsdb.Engine
	node, db string
}

func (e *nodeEngine) GetDatabase(name string) (tsdb.Database, bool) {
	if name != e.db {
		return nil, false
	}
	return e.Engine.GetDatabase(nodeDBName(e.node, e.db))
}

func (e *nodeEngine) GetShard(name string, id models.ShardID) (tsdb.Shard, bool) {
	if name != e.db {
		return nil, false
	}
	return e.Engine.GetShard(nodeDBName(e.node, e.db), id)
}

// Route returns the shard index of the point among numOfShards shards, computed by the broker write path's
// own code: proto -> BrokerRowProtoConverter.ConvertTo -> BrokerBatchRows.NewShardGroupIterator(numOfShards)
// (replica/channel_database.go Write: shardID = models.ShardID(shardIdx)). It also returns the row block the
// broker would append to that shard's channel.
func Route(p Point, numOfShards int32) (shardIdx int, block []byte, err error) {
	m := &protoMetricsV1.Metric{Namespace: p.Namespace, Name: p.Metric, Timestamp: p.Timestamp}
	keys := make([]string, 0, len(p.Tags))
	for k := range p.Tags {
		keys = append(keys, k)
	}
	sortStrings(keys)
	for _, k := range keys {
		m.Tags = append(m.Tags, &protoMetricsV1.KeyValue{Key: k, Value: p.Tags[k]})
	}
	t, ok := simpleTypes[p.Type]
	if !ok {
		return 0, nil, fmt.Errorf("unknown field type %q", p.Type)
	}
	m.SimpleFields = []*protoMetricsV1.SimpleField{{Name: p.Field, Type: t, Value: p.Value}}
	converter := metric.NewProtoConverter(models.NewDefaultLimits())
	batch := metric.NewBrokerBatchRows()
	defer batch.Release()
	if err := batch.TryAppend(func(row *metric.BrokerRow) error { return converter.ConvertTo(m, row) }); err != nil {
		return 0, nil, err
	}
	it := batch.NewShardGroupIterator(numOfShards)
	n := 0
	for it.HasRowsForNextShard() {
		idx, fit := it.FamilyRowsForNextShard(timeutil.Interval(10_000))
		for fit.HasNextFamily() {
			_, rows := fit.NextFamily()
			for i := range rows {
				var w sliceWriter
				if _, err := rows[i].WriteTo(&w); err != nil {
					return 0, nil, err
				}
				shardIdx, block = idx, w.b
				n++
			}
		}
	}
	if n != 1 {
		return 0, nil, fmt.Errorf("router produced %d rows for one point", n)
	}
	return shardIdx, block, nil
}

type sliceWriter struct{ b []byte }

func (w *sliceWriter) Write(p []byte) (int, error) { w.b = append(w.b, p...); return len(p), nil }

func sortStrings(a []string) {
	for i := 1; i < len(a); i++ {
		for j := i; j > 0 && a[j] < a[j-1]; j-- {
			a[j], a[j-1] = a[j-1], a[j]
		}
	}
}

// WriteBlock writes one routed row block (as produced by Route) into the shard of the node.
func (b *Box) WriteBlock(shardID models.ShardID, ts int64, block []byte) error {
	shard, ok := b.DB.GetShard(shardID)
	if !ok {
		return fmt.Errorf("shard %d not found", shardID)
	}
	var br metric.StorageBatchRows
	br.UnmarshalRows(block)
	ft := shard.CurrentInterval().Calculator().CalcFamilyTime(ts)
	f, err := shard.GetOrCrateDataFamily(ft)
	if err != nil {
		return err
	}
	return f.WriteRows(br.Rows())
}

// LeafRun is what the leaves produced for one query.
type LeafRun struct {
	Leaves []Leaf
	Resps  []*protoCommonV1.TaskResponse // by leaf index
	Errs   []string                      // ErrMsg of each response
	Extra  int                           // responses beyond one per request

	stmtJSON []byte // the parsed statement in its JSON form (for DeliverClone)

	Planned  []byte   // the root's statement after its plan stage, in its JSON form
	Payloads [][]byte // by leaf index: the statement payload of the request the root sent to that leaf
}

type clusterChooser = chooser

func (c *Cluster) newRoot(ctx context.Context, q string, tr timeutil.TimeRange, leaves []Leaf, stmtJSON []byte) (*queryctx.RootMetricContext, *recordingTransport, error) {
	var qs *stmt.Query
	if stmtJSON != nil {
		// statement cloned through its own JSON form (what leaves and intermediates always get)
		qs = &stmt.Query{}
		if err := qs.UnmarshalJSON(stmtJSON); err != nil {
			return nil, nil, fmt.Errorf("statement clone: %w", err)
		}
	} else {
		var err error
		qs, err = ParseQuery(q, tr)
		if err != nil {
			return nil, nil, fmt.Errorf("parse: %w", err)
		}
	}
	plan := &models.PhysicalPlan{Database: c.DBName}
	for _, l := range leaves {
		plan.AddTarget(&models.Target{Indicator: l.Node, ShardIDs: l.Shards})
	}
	ch := &clusterChooser{db: c.DBName, opt: c.Opt, plan: plan}
	tm := &recordingTransport{}
	rootNode := models.StatelessNode{HostIP: "10.0.0.100", GRPCPort: 9000}
	req := models.NewRequest(rootNode.Indicator(), c.DBName, q)
	root := queryctx.NewRootMetricContext(&queryctx.RootMetricContextDeps{
		Ctx: ctx, Request: req, Database: c.DBName, CurrentNode: rootNode, Statement: qs, Choose: ch, TransportMgr: tm,
	})
	return root, tm, nil
}

// runRootPlan runs the root's plan + send stages inline; returns the pipeline's completion error.
func runRootPlan(ctx context.Context, root *queryctx.RootMetricContext) (tracker *trackerpkg.StageTracker, pipeErr error, err error) {
	tracker = trackerpkg.NewStageTracker(flow.NewTaskContextWithTimeout(ctx, 60*time.Second))
	root.SetTracker(tracker)
	done := false
	pipeline := query.NewExecutePipeline(tracker, func(e error) { pipeErr = e; done = true })
	pipeline.Execute(stage.NewPhysicalPlanStage(root))
	if !done {
		return nil, nil, fmt.Errorf("root pipeline did not complete synchronously")
	}
	return tracker, pipeErr, nil
}

// LeafResponses plans the query at a real root, then runs every recorded request through the real leaf
// task processor of its node (node k sees only its own database) and returns the responses.
// planErr != nil: the root's own pipeline failed (no leaf was asked).
func (c *Cluster) LeafResponses(q string, tr timeutil.TimeRange, leaves []Leaf) (run *LeafRun, planErr error, err error) {
	ctx, cancel := context.WithTimeout(context.Background(), 60*time.Second)
	defer cancel()
	root, tm, err := c.newRoot(ctx, q, tr, leaves, nil)
	if err != nil {
		return nil, nil, err
	}
	stmtJSON, _ := root.Deps.Statement.MarshalJSON() // before MakePlan touches the statement
	_, planErr, err = runRootPlan(ctx, root)
	if err != nil || planErr != nil {
		return nil, planErr, err
	}
	run = &LeafRun{stmtJSON: stmtJSON, Leaves: leaves, Resps: make([]*protoCommonV1.TaskResponse, len(leaves)), Errs: make([]string, len(leaves))}
	run.Planned, _ = root.Deps.Statement.MarshalJSON()
	run.Payloads = make([][]byte, len(leaves))
	for i, l := range leaves {
		r, ok := tm.reqs[l.Node]
		if !ok {
			return nil, nil, fmt.Errorf("no request was sent to leaf %s", l.Node)
		}
		run.Payloads[i] = append([]byte(nil), r.Payload...)
		st := &stream{ch: make(chan *protoCommonV1.TaskResponse, 4)}
		node := &models.StatefulNode{StatelessNode: parseNode(l.Node), ID: models.NodeID(i + 1)}
		proc := query.NewLeafTaskProcessor(node, &nodeEngine{Engine: c.Engine, node: l.Node, db: c.DBName}, &serverFactory{s: st})
		tctx := flow.NewTaskContextWithTimeout(ctx, 60*time.Second)
		if perr := proc.Process(tctx, st, r); perr != nil {
			// the task server answers a failed Process with an error response (query/task_handler.go)
			run.Resps[i] = &protoCommonV1.TaskResponse{RequestID: r.RequestID, RequestType: r.RequestType, Completed: true, ErrMsg: perr.Error()}
			run.Errs[i] = perr.Error()
			continue
		}
		select {
		case resp := <-st.ch:
			run.Resps[i] = resp
			run.Errs[i] = resp.ErrMsg
		case <-time.After(30 * time.Second):
			return nil, nil, fmt.Errorf("no response from leaf %d (%s) within the horizon", i, l.Node)
		}
		// the leaf's pipeline callback has returned when its (single) response was sent; a second response
		// would have been sent from the same callback before -> non-blocking poll is enough
		select {
		case <-st.ch:
			run.Extra++
		default:
		}
	}
	return run, nil, nil
}

// Deliver creates a fresh real root for the same query and layout, runs its plan and send stages, then
// delivers the leaf responses in `order` with Complete(nil) at position completeAt (-1/0 = before all
// responses, len(order) = after all) and returns what WaitResponse returns.
func (c *Cluster) Deliver(q string, tr timeutil.TimeRange, run *LeafRun, order []int, completeAt int) (*commonmodels.ResultSet, error) {
	r := c.DeliverX(q, tr, run, DeliverOpt{Order: order, CompleteAt: completeAt})
	return r.Result, r.Err
}

// DeliverClone is Deliver with the root's statement cloned through its JSON form instead of parsed again
// (the SQL parser costs more than everything else at the root).
func (c *Cluster) DeliverClone(q string, tr timeutil.TimeRange, run *LeafRun, order []int, completeAt int) (*commonmodels.ResultSet, error) {
	r := c.DeliverX(q, tr, run, DeliverOpt{Order: order, CompleteAt: completeAt, Clone: true})
	return r.Result, r.Err
}

// DeliverOpt: delivery schedule of one root run.
type DeliverOpt struct {
	Order      []int // permutation of leaf indexes; nil = natural
	CompleteAt int   // position of the root pipeline's Complete(nil): <=0 before all responses, len = after all
	Clone      bool  // statement cloned through JSON instead of parsed
	// Eager: the goroutine blocked in WaitResponse runs as soon as the context is done (doneCh closed) - events
	// after that moment come too late for the answer. Otherwise it runs after every event was delivered.
	// Both are legal schedules of the waiting goroutine.
	Eager bool
	// DuringSend: leaf indexes whose answer reaches the root while the root's send stage is still inside the
	// SendRequest call for that leaf (a fast node; the requests to the later targets have not been sent yet)
	DuringSend []int
}

// DeliverResult of one root run.
type DeliverResult struct {
	Result *commonmodels.ResultSet
	Err    error
	// DoneAfter = number of delivered events (responses + the completion) after which the context was done;
	// Events = number of events of the schedule. DoneAfter < Events: the waiter could have been released early.
	DoneAfter, Events int
}

// DeliverX runs a fresh real root with the given delivery schedule.
func (c *Cluster) DeliverX(q string, tr timeutil.TimeRange, run *LeafRun, opt DeliverOpt) (res DeliverResult) {
	ctx, cancel := context.WithTimeout(context.Background(), 60*time.Second)
	defer cancel()
	var stmtJSON []byte
	if opt.Clone {
		stmtJSON = run.stmtJSON
	}
	root, tm, err := c.newRoot(ctx, q, tr, run.Leaves, stmtJSON)
	if err != nil {
		res.Err = err
		return
	}
	early := map[int]bool{}
	if len(opt.DuringSend) > 0 {
		for _, li := range opt.DuringSend {
			early[li] = true
		}
		tm.onSend = func(target string) {
			for li, l := range run.Leaves {
				if l.Node == target && early[li] {
					root.HandleResponse(run.Resps[li], l.Node)
				}
			}
		}
	}
	tracker, planErr, err := runRootPlan(ctx, root)
	if err != nil {
		res.Err = err
		return
	}
	if planErr != nil {
		root.Complete(planErr)
		_, res.Err = root.WaitResponse()
		return
	}
	order := opt.Order
	if order == nil {
		for i := range run.Leaves {
			order = append(order, i)
		}
	}
	completeAt := opt.CompleteAt
	if completeAt < 0 {
		completeAt = 0
	}
	if completeAt > len(order) {
		completeAt = len(order)
	}
	// events: responses in order, with the completion inserted at completeAt
	type event struct{ leaf int } // leaf < 0: Complete(nil)
	var events []event
	for pos, li := range order {
		if pos == completeAt {
			events = append(events, event{-1})
		}
		if early[li] {
			continue // delivered while its request was being sent
		}
		events = append(events, event{li})
	}
	if completeAt == len(order) {
		events = append(events, event{-1})
	}
	res.Events = len(events)
	res.DoneAfter = -1
	// baseTaskContext.tryClose calls stageTracker.Complete() (which creates the tracker's stats) exactly when it
	// closes doneCh, synchronously inside the HandleResponse/Complete call that made the context complete:
	// stats present <=> WaitResponse does not block. No clock involved.
	if tracker.GetStats() != nil {
		res.DoneAfter = 0 // done before the send stage's own completion and before the other answers
	}
	for i, ev := range events {
		if res.DoneAfter == 0 && opt.Eager {
			break
		}
		if ev.leaf < 0 {
			root.Complete(nil)
		} else {
			root.HandleResponse(run.Resps[ev.leaf], run.Leaves[ev.leaf].Node)
		}
		if res.DoneAfter < 0 && tracker.GetStats() != nil {
			res.DoneAfter = i + 1
			if opt.Eager {
				break
			}
		}
	}
	if res.DoneAfter < 0 {
		res.Err = ErrRootNotDone
		return
	}
	out, err := root.WaitResponse()
	if err != nil {
		res.Err = err
		return
	}
	res.Result, _ = out.(*commonmodels.ResultSet)
	return
}

// ErrRootNotDone: all responses and the completion were delivered, yet the root still blocks in WaitResponse.
var ErrRootNotDone = fmt.Errorf("vbox: root context not completed after all responses and Complete were delivered")

// RootRun is a fresh real root (plan + send stages already run) whose events the caller delivers itself,
// one call per event, from whatever goroutine / controlled thread it likes.
type RootRun struct {
	root    *queryctx.RootMetricContext
	tracker *trackerpkg.StageTracker
	run     *LeafRun
	cancel  context.CancelFunc
}

// NewRootRun creates the root for the query and layout of `run`; clone = statement cloned through JSON.
func (c *Cluster) NewRootRun(q string, tr timeutil.TimeRange, run *LeafRun, clone bool) (*RootRun, error) {
	ctx, cancel := context.WithTimeout(context.Background(), 60*time.Second)
	var stmtJSON []byte
	if clone {
		stmtJSON = run.stmtJSON
	}
	root, _, err := c.newRoot(ctx, q, tr, run.Leaves, stmtJSON)
	if err != nil {
		cancel()
		return nil, err
	}
	tracker, planErr, err := runRootPlan(ctx, root)
	if err == nil && planErr != nil {
		err = fmt.Errorf("root plan failed: %w", planErr)
	}
	if err != nil {
		cancel()
		return nil, err
	}
	return &RootRun{root: root, tracker: tracker, run: run, cancel: cancel}, nil
}

// Respond delivers the response of leaf i.
func (r *RootRun) Respond(i int) { r.root.HandleResponse(r.run.Resps[i], r.run.Leaves[i].Node) }

// Complete delivers the root pipeline's completion.
func (r *RootRun) Complete() { r.root.Complete(nil) }

// Done reports whether the context is done (doneCh closed: tryClose creates the tracker's stats right before).
func (r *RootRun) Done() bool { return r.tracker.GetStats() != nil }

// Wait is WaitResponse; call it only when Done() (it blocks on a real channel otherwise).
func (r *RootRun) Wait() (*commonmodels.ResultSet, error) {
	out, err := r.root.WaitResponse()
	if err != nil {
		return nil, err
	}
	rs, _ := out.(*commonmodels.ResultSet)
	return rs, nil
}

// Close releases the root's context.
func (r *RootRun) Close() { r.cancel() }
