package vbox

import (
	"context"
	"fmt"
	"time"

	"github.com/lindb/lindb/flow"
	"github.com/lindb/lindb/models"
	"github.com/lindb/lindb/pkg/timeutil"
	protoCommonV1 "github.com/lindb/lindb/proto/gen/v1/common"
	"github.com/lindb/lindb/query"
	queryctx "github.com/lindb/lindb/query/context"
	"github.com/lindb/lindb/query/stage"
	trackerpkg "github.com/lindb/lindb/query/tracker"
)

// LeafRequest builds the task request the root would send to leaf `node` for statement q over the given shards.
func (b *Box) LeafRequest(q string, tr timeutil.TimeRange, node string, shards []models.ShardID, requestID string) (*protoCommonV1.TaskRequest, error) {
	qs, err := ParseQuery(q, tr)
	if err != nil {
		return nil, err
	}
	// let the real root plan the statement (interval / storage interval / ratio are computed by MakePlan)
	plan := &models.PhysicalPlan{Database: b.DBName}
	plan.AddTarget(&models.Target{Indicator: node, ShardIDs: shards})
	ch := &chooser{db: b.DBName, opt: b.Opt, plan: plan}
	tm := &recordingTransport{}
	rootNode := models.StatelessNode{HostIP: "10.0.0.100", GRPCPort: 9000}
	ctx, cancel := context.WithTimeout(context.Background(), 60*time.Second)
	defer cancel()
	req := models.NewRequest(rootNode.Indicator(), b.DBName, q)
	req.RequestID = requestID
	root := queryctx.NewRootMetricContext(&queryctx.RootMetricContextDeps{
		Ctx: ctx, Request: req, Database: b.DBName, CurrentNode: rootNode, Statement: qs, Choose: ch, TransportMgr: tm,
	})
	tracker := trackerpkg.NewStageTracker(flow.NewTaskContextWithTimeout(ctx, 60*time.Second))
	root.SetTracker(tracker)
	var pipeErr error
	pipeline := query.NewExecutePipeline(tracker, func(err error) { pipeErr = err })
	pipeline.Execute(stage.NewPhysicalPlanStage(root))
	if pipeErr != nil {
		return nil, pipeErr
	}
	r, ok := tm.reqs[node]
	if !ok {
		return nil, fmt.Errorf("the root sent no request to %s", node)
	}
	return r, nil
}

// LeafOnce hands one request to the real leaf task processor of `node` and collects every response it
// sends: it waits up to `horizon` for the first one and `quiet` for further ones (a duplicate response
// would arrive right after the first: both come from the completion of one pipeline).
func (b *Box) LeafOnce(node string, req *protoCommonV1.TaskRequest, horizon, quiet time.Duration) (resps []*protoCommonV1.TaskResponse, processErr error) {
	st := &stream{ch: make(chan *protoCommonV1.TaskResponse, 8)}
	n := &models.StatefulNode{StatelessNode: parseNode(node), ID: 1}
	proc := query.NewLeafTaskProcessor(n, b.Engine, &serverFactory{s: st})
	ctx, cancel := context.WithTimeout(context.Background(), horizon+time.Second)
	defer cancel()
	tctx := flow.NewTaskContextWithTimeout(ctx, horizon)
	if err := proc.Process(tctx, st, req); err != nil {
		return nil, err
	}
	select {
	case r := <-st.ch:
		resps = append(resps, r)
	case <-time.After(horizon):
		return nil, nil
	}
	for {
		select {
		case r := <-st.ch:
			resps = append(resps, r)
		case <-time.After(quiet):
			return resps, nil
		}
	}
}
