package vbox

import (
	"context"
	"fmt"
	"sync"
	"time"

	"github.com/lindb/common/pkg/ltoml"
	"google.golang.org/grpc/metadata"

	"github.com/lindb/lindb/config"
	"github.com/lindb/lindb/constants"
	"github.com/lindb/lindb/internal/concurrent"
	"github.com/lindb/lindb/internal/linmetric"
	"github.com/lindb/lindb/metrics"

	"github.com/lindb/lindb/flow"
	"github.com/lindb/lindb/models"
	"github.com/lindb/lindb/pkg/timeutil"
	protoCommonV1 "github.com/lindb/lindb/proto/gen/v1/common"
	"github.com/lindb/lindb/query"
	queryctx "github.com/lindb/lindb/query/context"
	"github.com/lindb/lindb/query/stage"
	trackerpkg "github.com/lindb/lindb/query/tracker"
)

// LeafRequest builds the task request the root would send to leaf `node` for statement q over the given shards.
func (b *Box) LeafRequest(q string, tr timeutil.TimeRange, node string, shards []models.ShardID, requestID string) (*protoCommonV1.TaskRequest, error) {
	qs, err := ParseQuery(q, tr)
	if err != nil {
		return nil, err
	}
	// let the real root plan the statement (interval / storage interval / ratio are computed by MakePlan)
	plan := &models.PhysicalPlan{Database: b.DBName}
	plan.AddTarget(&models.Target{Indicator: node, ShardIDs: shards})
	ch := &chooser{db: b.DBName, opt: b.Opt, plan: plan}
	tm := &recordingTransport{}
	rootNode := models.StatelessNode{HostIP: "10.0.0.100", GRPCPort: 9000}
	ctx, cancel := context.WithTimeout(context.Background(), 60*time.Second)
	defer cancel()
	req := models.NewRequest(rootNode.Indicator(), b.DBName, q)
	req.RequestID = requestID
	root := queryctx.NewRootMetricContext(&queryctx.RootMetricContextDeps{
		Ctx: ctx, Request: req, Database: b.DBName, CurrentNode: rootNode, Statement: qs, Choose: ch, TransportMgr: tm,
	})
	tracker := trackerpkg.NewStageTracker(flow.NewTaskContextWithTimeout(ctx, 60*time.Second))
	root.SetTracker(tracker)
	var pipeErr error
	pipeline := query.NewExecutePipeline(tracker, func(err error) { pipeErr = err })
	pipeline.Execute(stage.NewPhysicalPlanStage(root))
	if pipeErr != nil {
		return nil, pipeErr
	}
	r, ok := tm.reqs[node]
	if !ok {
		return nil, fmt.Errorf("the root sent no request to %s", node)
	}
	return r, nil
}

// LeafOnce hands one request to the real rpc task handler (query.TaskHandler.Handle: worker pool, leaf task
// processor, the handler's own error / panic answers) of `node` and collects every response sent on the stream:
// it waits up to `horizon` for the first one and `quiet` for further ones (a duplicate response arrives right
// after the first: both come from the completion of one request).
func (b *Box) LeafOnce(node string, req *protoCommonV1.TaskRequest, horizon, quiet time.Duration) (resps []*protoCommonV1.TaskResponse) {
	ctx, cancel := context.WithCancel(metadata.NewIncomingContext(context.Background(),
		metadata.Pairs(constants.RPCMetaKeyLogicNode, "10.0.0.100:9000")))
	st := &reqStream{stream: stream{ch: make(chan *protoCommonV1.TaskResponse, 8)}, ctx: ctx, reqs: make(chan *protoCommonV1.TaskRequest, 1)}
	n := &models.StatefulNode{StatelessNode: parseNode(node), ID: 1}
	fct := &serverFactory{s: &st.stream}
	proc := query.NewLeafTaskProcessor(n, b.Engine, fct)
	leafPoolOnce.Do(func() {
		leafPool = concurrent.NewPool("task-pool", 4, time.Minute, metrics.NewConcurrentStatistics("vbox-leaf", linmetric.StorageRegistry))
	})
	cfg := config.Query{QueryConcurrency: 4, IdleTimeout: ltoml.Duration(time.Minute), Timeout: ltoml.Duration(horizon)}
	h := query.NewTaskHandler(cfg, fct, proc, leafPool)
	done := make(chan struct{})
	go func() { defer close(done); _ = h.Handle(st) }()
	defer func() { cancel(); <-done }()
	st.reqs <- req
	select {
	case r := <-st.ch:
		resps = append(resps, r)
	case <-time.After(horizon):
		return nil
	}
	for {
		select {
		case r := <-st.ch:
			resps = append(resps, r)
		case <-time.After(quiet):
			return resps
		}
	}
}

var (
	leafPool     concurrent.Pool
	leafPoolOnce sync.Once
)

// reqStream is the server side of one task stream: Recv delivers the queued requests, then fails when the
// stream's context is cancelled (client gone).
type reqStream struct {
	stream
	ctx  context.Context
	reqs chan *protoCommonV1.TaskRequest
}

func (s *reqStream) Context() context.Context { return s.ctx }
func (s *reqStream) Recv() (*protoCommonV1.TaskRequest, error) {
	select {
	case r := <-s.reqs:
		return r, nil
	case <-s.ctx.Done():
		return nil, s.ctx.Err()
	}
}
