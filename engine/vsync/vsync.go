// Package vsync is a drop-in replacement of "sync" for rewritten lindb packages: inside a controlled
// execution every acquire-type operation is a scheduling point of vsched; outside it behaves like sync.
package sync

import (
	stdsync "sync"

	"github.com/lindb/lindb/internal/vsched"
)

type Locker = stdsync.Locker

// Mutex ------------------------------------------------------------------------------------------

type Mutex struct {
	mu   stdsync.Mutex
	held bool
}

func (m *Mutex) Lock() {
	if vsched.Controlled() {
		vsched.Block("Mutex.Lock", func() bool { return !m.held })
	}
	m.mu.Lock()
	m.held = true
	vsched.Acquire()
}

func (m *Mutex) TryLock() bool {
	if vsched.Controlled() {
		vsched.Point("Mutex.TryLock", m)
	}
	if m.mu.TryLock() {
		m.held = true
		vsched.Acquire()
		return true
	}
	return false
}

func (m *Mutex) Unlock() {
	vsched.Release()
	m.held = false
	m.mu.Unlock()
}

// RWMutex ----------------------------------------------------------------------------------------

type RWMutex struct {
	mu      stdsync.RWMutex
	st      stdsync.Mutex
	writer  bool
	readers int
}

func (m *RWMutex) Lock() {
	if vsched.Controlled() {
		vsched.Block("RWMutex.Lock", func() bool { return !m.writer && m.readers == 0 })
	}
	m.mu.Lock()
	m.writer = true
	vsched.Acquire()
}

func (m *RWMutex) Unlock() {
	vsched.Release()
	m.writer = false
	m.mu.Unlock()
}

func (m *RWMutex) RLock() {
	if vsched.Controlled() {
		vsched.Block("RWMutex.RLock", func() bool { return !m.writer })
	}
	m.mu.RLock()
	m.st.Lock()
	m.readers++
	m.st.Unlock()
	vsched.Acquire()
}

func (m *RWMutex) RUnlock() {
	vsched.Release()
	m.st.Lock()
	m.readers--
	m.st.Unlock()
	m.mu.RUnlock()
}

func (m *RWMutex) TryLock() bool {
	if vsched.Controlled() {
		vsched.Point("RWMutex.TryLock", m)
	}
	if m.mu.TryLock() {
		m.writer = true
		vsched.Acquire()
		return true
	}
	return false
}

func (m *RWMutex) TryRLock() bool {
	if vsched.Controlled() {
		vsched.Point("RWMutex.TryRLock", m)
	}
	if m.mu.TryRLock() {
		m.st.Lock()
		m.readers++
		m.st.Unlock()
		vsched.Acquire()
		return true
	}
	return false
}

func (m *RWMutex) RLocker() Locker { return (*rlocker)(m) }

type rlocker RWMutex

func (r *rlocker) Lock()   { (*RWMutex)(r).RLock() }
func (r *rlocker) Unlock() { (*RWMutex)(r).RUnlock() }

// WaitGroup --------------------------------------------------------------------------------------

type WaitGroup struct {
	wg stdsync.WaitGroup
	st stdsync.Mutex
	n  int
}

func (w *WaitGroup) Add(d int) {
	if vsched.Controlled() {
		vsched.Point("WaitGroup.Add", w)
	}
	w.st.Lock()
	w.n += d
	w.st.Unlock()
	w.wg.Add(d)
}

func (w *WaitGroup) Done() { w.Add(-1) }

func (w *WaitGroup) Wait() {
	if vsched.Controlled() {
		vsched.Block("WaitGroup.Wait", func() bool { return w.n == 0 })
		return
	}
	w.wg.Wait()
}

// Once -------------------------------------------------------------------------------------------

type Once struct {
	m    Mutex
	done bool
}

func (o *Once) Do(f func()) {
	if vsched.Controlled() {
		vsched.Point("Once.Do", o)
	}
	o.m.Lock()
	vsched.Acquire() // f runs inside a real critical section: no statement points in it
	defer func() { vsched.Release(); o.m.Unlock() }()
	if !o.done {
		defer func() { o.done = true }()
		f()
	}
}

// Cond -------------------------------------------------------------------------------------------

type Cond struct {
	L       Locker
	c       *stdsync.Cond
	st      stdsync.Mutex
	waiters []*condWaiter
}

type condWaiter struct{ signaled bool }

func NewCond(l Locker) *Cond { return &Cond{L: l, c: stdsync.NewCond(l)} }

func (c *Cond) Wait() {
	if !vsched.Controlled() {
		c.c.Wait()
		return
	}
	w := &condWaiter{}
	c.st.Lock()
	c.waiters = append(c.waiters, w)
	c.st.Unlock()
	c.L.Unlock()
	vsched.Block("Cond.Wait", func() bool { c.st.Lock(); defer c.st.Unlock(); return w.signaled })
	c.L.Lock()
}

// Signal / Broadcast always wake controlled waiters too (the caller may be a goroutine outside the scheduler).
func (c *Cond) Signal() {
	if vsched.Controlled() {
		vsched.Point("Cond.Signal", c)
	}
	c.st.Lock()
	if len(c.waiters) > 0 {
		c.waiters[0].signaled = true
		c.waiters = c.waiters[1:]
	}
	c.st.Unlock()
	c.c.Signal()
}

func (c *Cond) Broadcast() {
	if vsched.Controlled() {
		vsched.Point("Cond.Broadcast", c)
	}
	c.st.Lock()
	for _, w := range c.waiters {
		w.signaled = true
	}
	c.waiters = nil
	c.st.Unlock()
	c.c.Broadcast()
}

// Map --------------------------------------------------------------------------------------------

type Map struct{ m stdsync.Map }

func (m *Map) pt(op string) {
	if vsched.Controlled() {
		vsched.Point("Map."+op, m)
	}
}
func (m *Map) Load(k any) (any, bool)           { m.pt("Load"); return m.m.Load(k) }
func (m *Map) Store(k, v any)                   { m.pt("Store"); m.m.Store(k, v) }
func (m *Map) LoadOrStore(k, v any) (any, bool) { m.pt("LoadOrStore"); return m.m.LoadOrStore(k, v) }
func (m *Map) LoadAndDelete(k any) (any, bool)  { m.pt("LoadAndDelete"); return m.m.LoadAndDelete(k) }
func (m *Map) Delete(k any)                     { m.pt("Delete"); m.m.Delete(k) }
func (m *Map) Swap(k, v any) (any, bool)        { m.pt("Swap"); return m.m.Swap(k, v) }
func (m *Map) CompareAndSwap(k, o, n any) bool  { m.pt("CAS"); return m.m.CompareAndSwap(k, o, n) }
func (m *Map) CompareAndDelete(k, o any) bool   { m.pt("CAD"); return m.m.CompareAndDelete(k, o) }
func (m *Map) Range(f func(k, v any) bool)      { m.pt("Range"); m.m.Range(f) }

// Pool: deterministic LIFO free list (sync.Pool's per-P caches would be un-owned nondeterminism) ----

type Pool struct {
	New  func() any
	mu   stdsync.Mutex
	free []any
}

func (p *Pool) Get() any {
	p.mu.Lock()
	if n := len(p.free); n > 0 {
		x := p.free[n-1]
		p.free = p.free[:n-1]
		p.mu.Unlock()
		return x
	}
	p.mu.Unlock()
	if p.New != nil {
		return p.New()
	}
	return nil
}

func (p *Pool) Put(x any) {
	p.mu.Lock()
	if len(p.free) < 64 {
		p.free = append(p.free, x)
	}
	p.mu.Unlock()
}

func OnceFunc(f func()) func() {
	var o Once
	return func() { o.Do(f) }
}
