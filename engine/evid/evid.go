// Package vevid is the harness side of the evidence / violation protocol: every harness worker fills a
// Report (counters measured on this run, samples of real cases, violations with replay data) and
// writes it as JSON; the ./check driver merges the workers' reports, matches violations against
// known_findings.json, writes /verif/evidence/<id>.json and prints VIOLATION / KNOWN-FINDING lines.
package vevid

import (
	"encoding/json"
	"flag"
	"fmt"
	"os"
	"sort"
	"strconv"
	"strings"
	"sync"
	"time"
)

// Violation is one failed oracle clause. (Scenario, Clause, Site) is the identity used to match
// known findings: Scenario names the class of input/schedule/history (stable across runs), Clause the
// oracle clause, Site the first diverging call site or key.
type Violation struct {
	Clause   string      `json:"clause"`
	Scenario string      `json:"scenario"`
	Site     string      `json:"site"`
	Detail   string      `json:"detail"`
	Replay   interface{} `json:"replay,omitempty"`
}

// Report is what one worker measured.
type Report struct {
	Property           string                 `json:"property"`
	Part               string                 `json:"part,omitempty"`
	Evaluations        int64                  `json:"evaluations"`
	DistinctNontrivial int64                  `json:"distinct_nontrivial"`
	States             int64                  `json:"states"`
	Transitions        int64                  `json:"transitions"`
	TracesValidated    int64                  `json:"traces_validated_against_impl"`
	Samples            []interface{}          `json:"samples"`
	Violations         []Violation            `json:"violations"`
	ViolationCount     int64                  `json:"violation_count"`
	Exhaustive         bool                   `json:"exhaustive"`
	Capped             string                 `json:"capped,omitempty"`
	OutcomeKeys        []string               `json:"outcome_keys"`
	Rule               string                 `json:"rule"`
	Bounds             map[string]interface{} `json:"bounds,omitempty"`
	Extra              map[string]interface{} `json:"extra,omitempty"`
	Counters           map[string]int64       `json:"counters,omitempty"`
	HarnessError       string                 `json:"harness_error,omitempty"`

	mu       sync.Mutex
	outcomes map[string]struct{}
	seenV    map[string]struct{}
}

// Flags common to all harnesses.
type Flags struct {
	Tier     string
	Shard    int
	Shards   int
	Out      string
	Seed     int64
	Replay   string
	Deadline time.Time
	Scratch  string
	Part     string
	Args     []string
}

var F Flags

// ParseFlags parses the common worker flags.
func ParseFlags() *Flags {
	tier := flag.String("tier", "quick", "quick|thorough")
	shard := flag.String("shard", "0/1", "i/n")
	out := flag.String("out", "", "report file")
	seed := flag.Int64("seed", 0, "seed (only rotates work order)")
	replay := flag.String("replay", "", "replay file")
	dl := flag.Int("deadline", 0, "soft deadline in seconds (0 = none); reaching it ends the run with exhaustive=false")
	scratch := flag.String("scratch", "", "scratch directory")
	part := flag.String("part", "", "harness part")
	flag.Parse()
	F.Tier, F.Out, F.Seed, F.Replay, F.Scratch, F.Part = *tier, *out, *seed, *replay, *scratch, *part
	// "<part>_dense" is the same harness part built with statement-level scheduling points (VERIF_DENSE)
	F.Part = strings.TrimSuffix(strings.TrimSuffix(F.Part, "_dense"), "_densefull")
	F.Part = strings.TrimSuffix(F.Part, "_page4k")
	sp := strings.Split(*shard, "/")
	if len(sp) == 2 {
		F.Shard, _ = strconv.Atoi(sp[0])
		F.Shards, _ = strconv.Atoi(sp[1])
	}
	if F.Shards < 1 {
		F.Shards = 1
	}
	if *dl > 0 {
		F.Deadline = time.Now().Add(time.Duration(*dl) * time.Second)
	}
	if F.Scratch == "" {
		F.Scratch = os.TempDir()
	}
	F.Args = flag.Args()
	return &F
}

// Thorough reports whether the thorough tier was requested.
func (f *Flags) Thorough() bool { return f.Tier == "thorough" }

// Mine reports whether work item idx belongs to this shard.
func (f *Flags) Mine(idx int64) bool { return int(idx%int64(f.Shards)) == f.Shard }

// Expired reports whether the soft deadline passed.
func (f *Flags) Expired() bool { return !f.Deadline.IsZero() && time.Now().After(f.Deadline) }

// New creates a report.
func New(property string) *Report {
	current = newReport(property)
	return current
}

// current is the report OpFailed writes into.
var current *Report

// OpFailed is for a lindb operation of the harness' own set-up or driving code that must not fail (open a store,
// write a point, flush ...) and did: on the unchanged tree it never happens; on a changed tree it is a verdict
// about lindb, not a broken harness. The violation (clause operation-failed) is recorded, the report written and
// the worker ends normally, so the driver prints VIOLATION and exits 1.
func OpFailed(format string, a ...interface{}) {
	msg := fmt.Sprintf(format, a...)
	fmt.Fprintln(os.Stderr, "OPERATION-FAILED: "+msg)
	if current == nil {
		Fatal("%s", msg)
	}
	site := msg
	if i := strings.Index(site, ":"); i > 0 {
		site = site[:i]
	}
	current.Violate(Violation{Clause: "operation-failed", Scenario: "harness-driven operation", Site: site, Detail: "a lindb operation the harness needs failed: " + msg})
	current.Exhaustive = false
	current.Write()
	os.Exit(0)
}

func newReport(property string) *Report {
	return &Report{Property: property, Exhaustive: true, Part: F.Part, outcomes: map[string]struct{}{}, seenV: map[string]struct{}{},
		Bounds: map[string]interface{}{}, Extra: map[string]interface{}{}, Counters: map[string]int64{}}
}

// Outcome records a distinct observed outcome key (vacuity guard: many executions, one outcome = nothing collided).
func (r *Report) Outcome(key string) {
	r.mu.Lock()
	if len(r.outcomes) < 4096 {
		r.outcomes[key] = struct{}{}
	}
	r.mu.Unlock()
}

// Sample keeps up to 6 written-out cases.
func (r *Report) Sample(x interface{}) {
	r.mu.Lock()
	if len(r.Samples) < 6 {
		r.Samples = append(r.Samples, x)
	}
	r.mu.Unlock()
}

// Count adds to a named counter.
func (r *Report) Count(name string, d int64) {
	r.mu.Lock()
	r.Counters[name] += d
	r.mu.Unlock()
}

// Violate records a violation (deduplicated by identity, first 40 kept with replay data).
func (r *Report) Violate(v Violation) {
	r.mu.Lock()
	defer r.mu.Unlock()
	r.ViolationCount++
	k := v.Scenario + "\x00" + v.Clause + "\x00" + v.Site
	if _, ok := r.seenV[k]; ok {
		return
	}
	r.seenV[k] = struct{}{}
	if len(r.Violations) < 40 {
		if len(v.Detail) > 4000 {
			v.Detail = v.Detail[:4000] + "…"
		}
		r.Violations = append(r.Violations, v)
	}
}

// Cap marks the run as not exhaustive, with the reason.
func (r *Report) Cap(why string) {
	r.mu.Lock()
	r.Exhaustive = false
	if r.Capped == "" {
		r.Capped = why
	}
	r.mu.Unlock()
}

// Write stores the report. Exit code protocol for workers: 0 = report written (violations are in
// the report), 3 = harness error (never a VIOLATION).
func (r *Report) Write() {
	r.mu.Lock()
	for k := range r.outcomes {
		r.OutcomeKeys = append(r.OutcomeKeys, k)
	}
	sort.Strings(r.OutcomeKeys)
	r.mu.Unlock()
	js, err := json.MarshalIndent(r, "", " ")
	if err != nil {
		Fatal("marshal report: %v", err)
	}
	if F.Out == "" {
		os.Stdout.Write(js)
		return
	}
	// atomically: the driver may read the file as soon as it exists
	if err := os.WriteFile(F.Out+".tmp", js, 0o644); err != nil {
		Fatal("write report: %v", err)
	}
	if err := os.Rename(F.Out+".tmp", F.Out); err != nil {
		Fatal("write report: %v", err)
	}
	// The report is the worker's whole verdict. What follows is cleanup of real lindb objects (deferred Close of
	// engines, worker pools ...); under a changed tree that can wait for ever on a goroutine that spins or is parked
	// (a pool worker inside a decoder loop), and the driver would call the worker stuck and drop its report.
	go func() {
		time.Sleep(20 * time.Second)
		fmt.Fprintln(os.Stderr, "cleanup after the report did not finish within 20s; exiting")
		os.Exit(0)
	}()
}

// Fatal reports a harness error (exit 3): broken harness, never a property violation.
func Fatal(format string, a ...interface{}) {
	msg := fmt.Sprintf(format, a...)
	fmt.Fprintln(os.Stderr, "HARNESS-ERROR: "+msg)
	if F.Out != "" {
		js, _ := json.Marshal(map[string]string{"harness_error": msg})
		_ = os.WriteFile(F.Out, js, 0o644)
	}
	os.Exit(3)
}

// LoadReplay reads the replay payload of a violation file written by the driver.
func LoadReplay(path string, into interface{}) {
	b, err := os.ReadFile(path)
	if err != nil {
		Fatal("replay: %v", err)
	}
	var w struct {
		Replay json.RawMessage `json:"replay"`
	}
	if err := json.Unmarshal(b, &w); err != nil {
		Fatal("replay: %v", err)
	}
	if err := json.Unmarshal(w.Replay, into); err != nil {
		Fatal("replay payload: %v", err)
	}
}
