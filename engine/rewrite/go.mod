module verif/rewrite

go 1.23
