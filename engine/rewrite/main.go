// rewrite produces instrumented copies of lindb source files for `go build -overlay`:
//   - import "sync"               -> github.com/lindb/lindb/internal/vsync   (scheduling points)
//   - import "go.uber.org/atomic" -> github.com/lindb/lindb/internal/vatomic
//   - go f(a, b)                  -> { fn, a0, a1 := f, a, b; vsched.Go(func(){ fn(a0,a1) }) }
//   - optional constant scaling   (-scale file:name=value), a non-matching pattern is a hard error
//
// The sources are read from the repository working tree on every run; /repo is never written.
package main

import (
	"bytes"
	"encoding/json"
	"flag"
	"fmt"
	"go/ast"
	"go/format"
	"go/parser"
	"go/token"
	"os"
	"path/filepath"
	"regexp"
	"sort"
	"strconv"
	"strings"
)

type multi []string

func (m *multi) String() string     { return strings.Join(*m, ",") }
func (m *multi) Set(s string) error { *m = append(*m, s); return nil }

const (
	vsyncPath   = "github.com/lindb/lindb/internal/vsync"
	vatomicPath = "github.com/lindb/lindb/internal/vatomic"
	vschedPath  = "github.com/lindb/lindb/internal/vsched"
	vosPath     = "github.com/lindb/lindb/internal/vos"
)

func main() {
	var pkgs, files, scales, nogo, ospkgs, dense, chans multi
	repo := flag.String("repo", "/repo", "repository root")
	out := flag.String("out", "", "output directory for rewritten files")
	flag.Var(&pkgs, "pkg", "package directory (relative to repo) to rewrite wholesale")
	flag.Var(&files, "file", "single file (relative to repo) to rewrite")
	flag.Var(&scales, "scale", "file:const=value constant replacement")
	flag.Var(&nogo, "keepgo", "file (relative) whose go statements stay real goroutines")
	flag.Var(&ospkgs, "ospkg", "package directory whose import of \"os\" is replaced by the vos shim (file-system calls become crash points); only that import is touched")
	flag.Var(&dense, "dense", "package directory or file (relative to repo, must also be rewritten) that gets a statement-level scheduling point (vsched.Stmt) in front of every statement")
	flag.Var(&chans, "chan", "file (relative to repo, must also be rewritten) whose channel sends, receives, closes and two-clause selects with a default become scheduling points (vsched.Chan*)")
	flag.Parse()
	if *out == "" {
		fatal("need -out")
	}
	targets := map[string]bool{}
	for _, p := range pkgs {
		ents, err := os.ReadDir(filepath.Join(*repo, p))
		if err != nil {
			fatal("%v", err)
		}
		for _, e := range ents {
			n := e.Name()
			if e.IsDir() || !strings.HasSuffix(n, ".go") || strings.HasSuffix(n, "_test.go") {
				continue
			}
			targets[filepath.Join(p, n)] = true
		}
	}
	for _, f := range files {
		targets[f] = true
	}
	osOnly := map[string]bool{} // files rewritten only for their "os" import
	osFiles := map[string]bool{}
	for _, p := range ospkgs {
		ents, err := os.ReadDir(filepath.Join(*repo, p))
		if err != nil {
			fatal("%v", err)
		}
		for _, e := range ents {
			n := e.Name()
			if e.IsDir() || !strings.HasSuffix(n, ".go") || strings.HasSuffix(n, "_test.go") {
				continue
			}
			rel := filepath.Join(p, n)
			osFiles[rel] = true
			if !targets[rel] {
				osOnly[rel] = true
				targets[rel] = true
			}
		}
	}
	scaleBy := map[string][][2]string{}
	for _, sc := range scales {
		i := strings.Index(sc, ":")
		j := strings.Index(sc, "=")
		if i < 0 || j < i {
			fatal("bad -scale %q", sc)
		}
		f := sc[:i]
		scaleBy[f] = append(scaleBy[f], [2]string{sc[i+1 : j], sc[j+1:]})
		targets[f] = true
	}
	keep := map[string]bool{}
	for _, f := range nogo {
		keep[f] = true
	}
	denseFiles := map[string]bool{}
	for _, d := range dense {
		if strings.HasSuffix(d, ".go") {
			denseFiles[d] = true
			continue
		}
		ents, err := os.ReadDir(filepath.Join(*repo, d))
		if err != nil {
			fatal("%v", err)
		}
		for _, e := range ents {
			n := e.Name()
			if e.IsDir() || !strings.HasSuffix(n, ".go") || strings.HasSuffix(n, "_test.go") {
				continue
			}
			if strings.HasPrefix(n, "verif_export") || strings.HasPrefix(n, "zz_verif") {
				continue // hook files: the harness' own observation code must not contain scheduling points
			}
			denseFiles[filepath.Join(d, n)] = true
		}
	}
	for f := range denseFiles {
		if !targets[f] || osOnly[f] {
			fatal("dense: %s is not among the rewritten files", f)
		}
	}
	chanFiles := map[string]bool{}
	for _, f := range chans {
		if !targets[f] || osOnly[f] {
			fatal("chan: %s is not among the rewritten files", f)
		}
		chanFiles[f] = true
	}
	overlay := map[string]string{}
	var names []string
	for f := range targets {
		names = append(names, f)
	}
	sort.Strings(names)
	stats := map[string]int{}
	for _, rel := range names {
		src, err := os.ReadFile(filepath.Join(*repo, rel))
		if err != nil {
			fatal("%v", err)
		}
		for _, kv := range scaleBy[rel] {
			re := regexp.MustCompile(`(?m)^(\s*` + regexp.QuoteMeta(kv[0]) + `\s*(?:[A-Za-z0-9_.]+\s*)?=\s*)([^/\n]+?)(\s*(?://.*)?)$`)
			if !re.Match(src) {
				fatal("scale: constant %s not found in %s", kv[0], rel)
			}
			n := 0
			src = re.ReplaceAllFunc(src, func(m []byte) []byte {
				n++
				sub := re.FindSubmatch(m)
				return []byte(string(sub[1]) + kv[1] + string(sub[3]))
			})
			if n != 1 {
				fatal("scale: constant %s matched %d times in %s", kv[0], n, rel)
			}
			stats["scaled"]++
		}
		res, st, err := rewriteFile(rel, src, !keep[rel] && !osOnly[rel], !osOnly[rel], osFiles[rel], denseFiles[rel], chanFiles[rel])
		if err != nil {
			fatal("%s: %v", rel, err)
		}
		for k, v := range st {
			stats[k] += v
		}
		dst := filepath.Join(*out, rel)
		if err := os.MkdirAll(filepath.Dir(dst), 0o755); err != nil {
			fatal("%v", err)
		}
		if err := os.WriteFile(dst, res, 0o644); err != nil {
			fatal("%v", err)
		}
		overlay[filepath.Join(*repo, rel)] = dst
	}
	js, _ := json.Marshal(map[string]interface{}{"replace": overlay, "stats": stats})
	fmt.Println(string(js))
}

func fatal(f string, a ...interface{}) {
	fmt.Fprintf(os.Stderr, "rewrite: "+f+"\n", a...)
	os.Exit(2)
}

func rewriteFile(name string, src []byte, rewriteGo, rewriteSync, rewriteOS, denseStmts, rewriteChans bool) ([]byte, map[string]int, error) {
	st := map[string]int{}
	fset := token.NewFileSet()
	f, err := parser.ParseFile(fset, name, src, parser.ParseComments)
	if err != nil {
		return nil, nil, err
	}
	for _, im := range f.Imports {
		p, _ := strconv.Unquote(im.Path.Value)
		if p == "os" && rewriteOS {
			im.Path.Value = strconv.Quote(vosPath)
			if im.Name == nil {
				im.Name = ast.NewIdent("os")
			}
			st["os_imports"]++
		}
		if !rewriteSync {
			continue
		}
		switch p {
		case "sync":
			im.Path.Value = strconv.Quote(vsyncPath)
			if im.Name == nil {
				im.Name = ast.NewIdent("sync")
			}
			st["sync_imports"]++
		case "go.uber.org/atomic":
			im.Path.Value = strconv.Quote(vatomicPath)
			if im.Name == nil {
				im.Name = ast.NewIdent("atomic")
			}
			st["atomic_imports"]++
		}
	}
	if rewriteOS {
		// bufio.NewWriter(x) / bufio.NewWriterSize(x, n) -> bufio.NewWriter(os.HookWriter(x)): the writes a buffered
		// writer issues to a file become crash points (see vos.HookWriter)
		hasOS, hasBufio := false, false
		for _, im := range f.Imports {
			p, _ := strconv.Unquote(im.Path.Value)
			if p == vosPath && im.Name != nil && im.Name.Name == "os" {
				hasOS = true
			}
			if p == "bufio" && im.Name == nil {
				hasBufio = true
			}
		}
		if hasOS && hasBufio {
			ast.Inspect(f, func(n ast.Node) bool {
				call, ok := n.(*ast.CallExpr)
				if !ok || len(call.Args) == 0 {
					return true
				}
				sel, ok := call.Fun.(*ast.SelectorExpr)
				if !ok {
					return true
				}
				if id, ok := sel.X.(*ast.Ident); !ok || id.Name != "bufio" || (sel.Sel.Name != "NewWriter" && sel.Sel.Name != "NewWriterSize") {
					return true
				}
				call.Args[0] = &ast.CallExpr{Fun: &ast.SelectorExpr{X: ast.NewIdent("os"), Sel: ast.NewIdent("HookWriter")}, Args: []ast.Expr{call.Args[0]}}
				st["bufio_writers_hooked"]++
				return true
			})
		}
	}
	nGo := 0
	if rewriteGo {
		var fix func(list []ast.Stmt)
		fix = func(list []ast.Stmt) {
			for i, s := range list {
				if ls, ok := s.(*ast.LabeledStmt); ok {
					if g, ok := ls.Stmt.(*ast.GoStmt); ok {
						ls.Stmt = goRepl(g)
						nGo++
					}
					continue
				}
				if g, ok := s.(*ast.GoStmt); ok {
					list[i] = goRepl(g)
					nGo++
				}
			}
		}
		ast.Inspect(f, func(n ast.Node) bool {
			switch x := n.(type) {
			case *ast.BlockStmt:
				fix(x.List)
			case *ast.CaseClause:
				fix(x.Body)
			case *ast.CommClause:
				fix(x.Body)
			}
			return true
		})
		// any GoStmt left (e.g. `if c { } else go f()` is impossible in Go; be strict anyway)
		left := 0
		ast.Inspect(f, func(n ast.Node) bool {
			if _, ok := n.(*ast.GoStmt); ok {
				left++
			}
			return true
		})
		if left != 0 {
			return nil, nil, fmt.Errorf("%d go statements could not be rewritten", left)
		}
	}
	st["go_stmts"] = nGo
	nChan := 0
	if rewriteChans {
		var err error
		if nChan, err = rewriteChannels(f, st); err != nil {
			return nil, nil, err
		}
	}
	nStmt := 0
	if denseStmts {
		// vsched__.Stmt("file:line") in front of every statement of every function body (nested blocks, case and
		// select clauses included). Declarations, defer, labels and jumps get none; init functions are left alone.
		mk := func(pos token.Pos) ast.Stmt {
			nStmt++
			site := fmt.Sprintf("%s:%d", filepath.Base(name), fset.Position(pos).Line)
			return &ast.ExprStmt{X: &ast.CallExpr{
				Fun:  &ast.SelectorExpr{X: ast.NewIdent("vsched__"), Sel: ast.NewIdent("Stmt")},
				Args: []ast.Expr{&ast.BasicLit{Kind: token.STRING, Value: strconv.Quote(site)}},
			}}
		}
		wants := func(s ast.Stmt) bool {
			switch s.(type) {
			case *ast.DeclStmt, *ast.DeferStmt, *ast.EmptyStmt, *ast.LabeledStmt, *ast.BranchStmt:
				return false
			}
			return true
		}
		dense := func(list []ast.Stmt) []ast.Stmt {
			out := make([]ast.Stmt, 0, 2*len(list))
			for _, s := range list {
				if wants(s) {
					out = append(out, mk(s.Pos()))
				}
				out = append(out, s)
			}
			return out
		}
		for _, d := range f.Decls {
			fd, ok := d.(*ast.FuncDecl)
			if !ok || fd.Body == nil || (fd.Recv == nil && fd.Name.Name == "init") {
				continue
			}
			clauseBlocks := map[*ast.BlockStmt]bool{} // bodies of switch / select: their lists hold clauses
			ast.Inspect(fd.Body, func(n ast.Node) bool {
				switch x := n.(type) {
				case *ast.SwitchStmt:
					clauseBlocks[x.Body] = true
				case *ast.TypeSwitchStmt:
					clauseBlocks[x.Body] = true
				case *ast.SelectStmt:
					clauseBlocks[x.Body] = true
				case *ast.BlockStmt:
					if !clauseBlocks[x] {
						x.List = dense(x.List)
					}
				case *ast.CaseClause:
					x.Body = dense(x.Body)
				case *ast.CommClause:
					x.Body = dense(x.Body)
				}
				return true
			})
		}
		st["dense_stmts"] = nStmt
		// nodes without positions next to positioned comments confuse the printer: keep only the comments in front
		// of the package clause (build constraints)
		var keepc []*ast.CommentGroup
		for _, cg := range f.Comments {
			if cg.End() < f.Package {
				keepc = append(keepc, cg)
			}
		}
		f.Comments = keepc
		ast.Inspect(f, func(n ast.Node) bool {
			switch x := n.(type) {
			case *ast.FuncDecl:
				x.Doc = nil
			case *ast.GenDecl:
				x.Doc = nil
			case *ast.Field:
				x.Doc, x.Comment = nil, nil
			case *ast.ValueSpec:
				x.Doc, x.Comment = nil, nil
			case *ast.TypeSpec:
				x.Doc, x.Comment = nil, nil
			case *ast.ImportSpec:
				x.Doc, x.Comment = nil, nil
			}
			return true
		})
	}
	if nGo > 0 || nStmt > 0 || nChan > 0 {
		// add import of vsched
		spec := &ast.ImportSpec{Name: ast.NewIdent("vsched__"), Path: &ast.BasicLit{Kind: token.STRING, Value: strconv.Quote(vschedPath)}}
		decl := &ast.GenDecl{Tok: token.IMPORT, Specs: []ast.Spec{spec}}
		f.Decls = append([]ast.Decl{decl}, f.Decls...)
		f.Imports = append(f.Imports, spec)
	}
	var buf bytes.Buffer
	if err := format.Node(&buf, fset, f); err != nil {
		return nil, nil, err
	}
	return buf.Bytes(), st, nil
}

// goRepl builds { fn__, a0__, ... := f, a, ...; vsched__.Go(func(){ fn__(a0__, ...) }) }.
func goRepl(g *ast.GoStmt) ast.Stmt {
	call := g.Call
	if fl, ok := call.Fun.(*ast.FuncLit); ok && len(call.Args) == 0 {
		return &ast.ExprStmt{X: &ast.CallExpr{
			Fun:  &ast.SelectorExpr{X: ast.NewIdent("vsched__"), Sel: ast.NewIdent("Go")},
			Args: []ast.Expr{fl},
		}}
	}
	lhs := []ast.Expr{ast.NewIdent("fn__")}
	rhs := []ast.Expr{call.Fun}
	var args []ast.Expr
	for i, a := range call.Args {
		id := ast.NewIdent("a" + strconv.Itoa(i) + "__")
		lhs = append(lhs, id)
		rhs = append(rhs, a)
		args = append(args, ast.NewIdent(id.Name))
	}
	inner := &ast.CallExpr{Fun: ast.NewIdent("fn__"), Args: args, Ellipsis: call.Ellipsis}
	if call.Ellipsis != token.NoPos {
		inner.Ellipsis = 1
	}
	return &ast.BlockStmt{List: []ast.Stmt{
		&ast.AssignStmt{Lhs: lhs, Tok: token.DEFINE, Rhs: rhs},
		&ast.ExprStmt{X: &ast.CallExpr{
			Fun: &ast.SelectorExpr{X: ast.NewIdent("vsched__"), Sel: ast.NewIdent("Go")},
			Args: []ast.Expr{&ast.FuncLit{
				Type: &ast.FuncType{Params: &ast.FieldList{}},
				Body: &ast.BlockStmt{List: []ast.Stmt{&ast.ExprStmt{X: inner}}},
			}},
		}},
	}}
}

// rewriteChannels turns the channel operations of a file into calls of the vsched channel helpers:
//
//	ch <- v                                   -> vsched__.ChanSend(ch, v)
//	<-ch  (statement or inside an expression) -> vsched__.ChanRecv(ch)
//	v, ok := <-ch / v, ok = <-ch              -> ... vsched__.ChanRecv2(ch)
//	close(ch)                                 -> vsched__.ChanClose(ch)
//	select { case ch <- v: A; default: B }    -> if vsched__.ChanTrySend(ch, v) { A } else { B }
//	select { case <-ch: A; default: B }       -> if _, _, got__ := vsched__.ChanTryRecv(ch); got__ { A } else { B }
//
// Any other select statement is left as it is (counted in select_untouched); range over a channel is not recognised
// (no type information) and stays a plain Go loop.
func rewriteChannels(f *ast.File, st map[string]int) (int, error) {
	n := 0
	sel := func(name string) ast.Expr {
		return &ast.SelectorExpr{X: ast.NewIdent("vsched__"), Sel: ast.NewIdent(name)}
	}
	isRecv := func(e ast.Expr) (*ast.UnaryExpr, bool) {
		for {
			if p, ok := e.(*ast.ParenExpr); ok {
				e = p.X
				continue
			}
			break
		}
		u, ok := e.(*ast.UnaryExpr)
		return u, ok && u.Op == token.ARROW
	}
	var rwExpr func(e *ast.Expr)
	rwExpr = func(e *ast.Expr) {
		if e == nil || *e == nil {
			return
		}
		if u, ok := isRecv(*e); ok {
			rwExpr(&u.X)
			*e = &ast.CallExpr{Fun: sel("ChanRecv"), Args: []ast.Expr{u.X}}
			n++
			st["chan_recv"]++
			return
		}
		if c, ok := (*e).(*ast.CallExpr); ok {
			if id, ok := c.Fun.(*ast.Ident); ok && id.Name == "close" && len(c.Args) == 1 {
				c.Fun = sel("ChanClose")
				n++
				st["chan_close"]++
			}
		}
	}
	skip := map[ast.Node]bool{} // comm statements of selects that stay as they are
	// first pass: selects and statements in statement lists
	var fixList func(list []ast.Stmt)
	fixStmt := func(s ast.Stmt) ast.Stmt {
		switch x := s.(type) {
		case *ast.SendStmt:
			n++
			st["chan_send"]++
			return &ast.ExprStmt{X: &ast.CallExpr{Fun: sel("ChanSend"), Args: []ast.Expr{x.Chan, x.Value}}}
		case *ast.AssignStmt:
			if len(x.Lhs) == 2 && len(x.Rhs) == 1 {
				if u, ok := isRecv(x.Rhs[0]); ok {
					x.Rhs[0] = &ast.CallExpr{Fun: sel("ChanRecv2"), Args: []ast.Expr{u.X}}
					n++
					st["chan_recv"]++
				}
			}
		case *ast.SelectStmt:
			var def, other *ast.CommClause
			if len(x.Body.List) == 2 {
				for _, c := range x.Body.List {
					cc := c.(*ast.CommClause)
					if cc.Comm == nil {
						def = cc
					} else {
						other = cc
					}
				}
			}
			if def != nil && other != nil {
				if snd, ok := other.Comm.(*ast.SendStmt); ok {
					n++
					st["chan_trysend"]++
					return &ast.IfStmt{
						Cond: &ast.CallExpr{Fun: sel("ChanTrySend"), Args: []ast.Expr{snd.Chan, snd.Value}},
						Body: &ast.BlockStmt{List: other.Body},
						Else: &ast.BlockStmt{List: def.Body},
					}
				}
				if es, ok := other.Comm.(*ast.ExprStmt); ok {
					if u, ok := isRecv(es.X); ok {
						n++
						st["chan_tryrecv"]++
						return &ast.IfStmt{
							Init: &ast.AssignStmt{Lhs: []ast.Expr{ast.NewIdent("_"), ast.NewIdent("_"), ast.NewIdent("got__")}, Tok: token.DEFINE,
								Rhs: []ast.Expr{&ast.CallExpr{Fun: sel("ChanTryRecv"), Args: []ast.Expr{u.X}}}},
							Cond: ast.NewIdent("got__"),
							Body: &ast.BlockStmt{List: other.Body},
							Else: &ast.BlockStmt{List: def.Body},
						}
					}
				}
			}
			st["select_untouched"]++
			for _, c := range x.Body.List {
				if cc := c.(*ast.CommClause); cc.Comm != nil {
					skip[cc.Comm] = true
				}
			}
		}
		return s
	}
	fixList = func(list []ast.Stmt) {
		for i, s := range list {
			if ls, ok := s.(*ast.LabeledStmt); ok {
				ls.Stmt = fixStmt(ls.Stmt)
				continue
			}
			list[i] = fixStmt(s)
		}
	}
	ast.Inspect(f, func(nd ast.Node) bool {
		switch x := nd.(type) {
		case *ast.BlockStmt:
			fixList(x.List)
		case *ast.CaseClause:
			fixList(x.Body)
		case *ast.CommClause:
			fixList(x.Body)
		}
		return true
	})
	// second pass: receive expressions and close calls wherever an expression can stand
	ast.Inspect(f, func(nd ast.Node) bool {
		if nd != nil && skip[nd] {
			return false
		}
		switch x := nd.(type) {
		case *ast.ExprStmt:
			rwExpr(&x.X)
		case *ast.AssignStmt:
			for i := range x.Rhs {
				rwExpr(&x.Rhs[i])
			}
		case *ast.ReturnStmt:
			for i := range x.Results {
				rwExpr(&x.Results[i])
			}
		case *ast.CallExpr:
			for i := range x.Args {
				rwExpr(&x.Args[i])
			}
		case *ast.BinaryExpr:
			rwExpr(&x.X)
			rwExpr(&x.Y)
		case *ast.UnaryExpr:
			if x.Op != token.ARROW {
				rwExpr(&x.X)
			}
		case *ast.ParenExpr:
			rwExpr(&x.X)
		case *ast.IfStmt:
			rwExpr(&x.Cond)
		case *ast.SwitchStmt:
			rwExpr(&x.Tag)
		case *ast.ValueSpec:
			for i := range x.Values {
				rwExpr(&x.Values[i])
			}
		case *ast.KeyValueExpr:
			rwExpr(&x.Value)
		case *ast.CompositeLit:
			for i := range x.Elts {
				rwExpr(&x.Elts[i])
			}
		case *ast.IndexExpr:
			rwExpr(&x.Index)
		case *ast.SendStmt:
			rwExpr(&x.Value)
		case *ast.DeferStmt:
			if id, ok := x.Call.Fun.(*ast.Ident); ok && id.Name == "close" && len(x.Call.Args) == 1 {
				x.Call.Fun = sel("ChanClose")
				n++
				st["chan_close"]++
			}
		}
		return true
	})
	// nothing may be left outside the selects that were left alone
	left := 0
	ast.Inspect(f, func(nd ast.Node) bool {
		if nd != nil && skip[nd] {
			return false
		}
		if u, ok := nd.(*ast.UnaryExpr); ok && u.Op == token.ARROW {
			left++
		}
		if _, ok := nd.(*ast.SendStmt); ok {
			left++
		}
		return true
	})
	if left != 0 {
		return 0, fmt.Errorf("%d channel operations could not be rewritten", left)
	}
	return n, nil
}
