// Package vcrashfs records the durable state of a directory tree after every file-system operation of a
// history and lets a harness recover every distinct state with the real code (crash-point enumeration).
//
// Crash model = process kill: what is in the page cache survives, what sits in a user-space buffer is
// lost. The durable state at a point therefore IS the directory tree at that point; the recorder simply
// copies the tree after each seam call (files here are a few hundred bytes).
package vcrashfs

import (
	"crypto/sha1"
	"encoding/hex"
	"fmt"
	"os"
	"path/filepath"
	"sort"
	"strings"
)

// Image is a directory tree: relative path -> content; directories are kept to reproduce empty ones.
type Image struct {
	Files map[string][]byte
	Dirs  []string
	hash  string
}

// Snap copies the tree below root (files named in skip are ignored, e.g. LOCK).
func Snap(root string, skip func(rel string) bool) *Image {
	im := &Image{Files: map[string][]byte{}}
	_ = filepath.Walk(root, func(p string, info os.FileInfo, err error) error {
		if err != nil {
			return nil
		}
		rel, _ := filepath.Rel(root, p)
		if rel == "." {
			return nil
		}
		if skip != nil && skip(rel) {
			return nil
		}
		if info.IsDir() {
			im.Dirs = append(im.Dirs, rel)
			return nil
		}
		b, err := os.ReadFile(p)
		if err == nil {
			im.Files[rel] = b
		}
		return nil
	})
	sort.Strings(im.Dirs)
	return im
}

// Clone returns a deep copy.
func (im *Image) Clone() *Image {
	c := &Image{Files: map[string][]byte{}, Dirs: append([]string(nil), im.Dirs...)}
	for k, v := range im.Files {
		c.Files[k] = v // contents are never mutated
	}
	return c
}

// Hash is a content hash of the tree.
func (im *Image) Hash() string {
	if im.hash != "" {
		return im.hash
	}
	keys := make([]string, 0, len(im.Files))
	for k := range im.Files {
		keys = append(keys, k)
	}
	sort.Strings(keys)
	h := sha1.New()
	for _, d := range im.Dirs {
		fmt.Fprintf(h, "d:%s;", d)
	}
	for _, k := range keys {
		fmt.Fprintf(h, "f:%s:%d:", k, len(im.Files[k]))
		h.Write(im.Files[k])
	}
	im.hash = hex.EncodeToString(h.Sum(nil))[:20]
	return im.hash
}

// Materialize writes the tree below dir.
func (im *Image) Materialize(dir string) error {
	if err := os.MkdirAll(dir, 0o755); err != nil {
		return err
	}
	for _, d := range im.Dirs {
		if err := os.MkdirAll(filepath.Join(dir, d), 0o755); err != nil {
			return err
		}
	}
	for rel, b := range im.Files {
		p := filepath.Join(dir, rel)
		if err := os.MkdirAll(filepath.Dir(p), 0o755); err != nil {
			return err
		}
		if err := os.WriteFile(p, b, 0o644); err != nil {
			return err
		}
	}
	return nil
}

// Describe lists the files with sizes (for reports).
func (im *Image) Describe() string {
	keys := make([]string, 0, len(im.Files))
	for k := range im.Files {
		keys = append(keys, fmt.Sprintf("%s(%d)", k, len(im.Files[k])))
	}
	sort.Strings(keys)
	return strings.Join(keys, " ")
}

// Point is one recorded crash point.
type Point struct {
	Image *Image
	Label string      // the seam call after which the image was taken
	Note  interface{} // harness state at that point (acknowledged model, in-flight operation)
	Seq   int
}

// Recorder collects crash points of one history.
type Recorder struct {
	Root   string
	Skip   func(rel string) bool
	Note   func() interface{} // called at every point
	Points []*Point
	Calls  int // seam calls seen
	paused bool
}

// NewRecorder creates a recorder for the tree below root.
func NewRecorder(root string) *Recorder { return &Recorder{Root: root} }

// Pause stops recording (e.g. while the harness reads back state).
func (r *Recorder) Pause() { r.paused = true }

// Resume continues recording.
func (r *Recorder) Resume() { r.paused = false }

// At records the current tree after the seam call named label. Consecutive identical trees with an
// identical note are stored once.
func (r *Recorder) At(label string) {
	if r == nil || r.paused {
		return
	}
	r.Calls++
	im := Snap(r.Root, r.Skip)
	var note interface{}
	if r.Note != nil {
		note = r.Note()
	}
	r.Points = append(r.Points, &Point{Image: im, Label: label, Note: note, Seq: len(r.Points)})
}

// AddSynthetic records a derived image (e.g. "tmp file left behind by a tmp-write-rename that cannot be
// split from outside").
func (r *Recorder) AddSynthetic(label string, im *Image) {
	if r == nil || r.paused {
		return
	}
	var note interface{}
	if r.Note != nil {
		note = r.Note()
	}
	r.Points = append(r.Points, &Point{Image: im, Label: label, Note: note, Seq: len(r.Points)})
}
